"""Case generators for the correspondence check (python3 stdlib only).

A *case* is a list of command lines (see lean/CorgiModel/Step.lean) plus a `key` used to count
distinct cases and `tags` used for histograms.  Every random choice comes from the `random.Random`
instance handed in, which is seeded from VERIF_SEED, so a run replays exactly.

Exact channel: values are small integers / dyadic rationals, so f64 arithmetic is exact and the
model over `Rat` must agree bit for bit.  Float channel: arbitrary in-domain doubles, hex bit
patterns, compared under a tolerance.
"""
import itertools
import struct
from fractions import Fraction


class Case:
    __slots__ = ("lines", "key", "tags", "mode", "nontrivial")

    def __init__(self, lines, key, tags=(), mode="exact", nontrivial=True):
        self.lines = lines
        self.key = key
        self.tags = list(tags)
        self.mode = mode
        self.nontrivial = nontrivial


# ---------------------------------------------------------------- helpers

def prod(ds):
    p = 1
    for d in ds:
        p *= d
    return p


def dims_s(ds):
    return ",".join(str(d) for d in ds) if ds else "-"


def fhex(x):
    return "x%016x" % struct.unpack("<Q", struct.pack("<d", x))[0]


def f32hex(x):
    return "x%08x" % struct.unpack("<I", struct.pack("<f", x))[0]


def sc(x, mode):
    """render a scalar for the command file"""
    if mode == "exact":
        if isinstance(x, Fraction):
            return str(x.numerator) if x.denominator == 1 else "%d/%d" % (x.numerator, x.denominator)
        return str(int(x))
    if mode == "f32":
        return f32hex(float(x))
    return fhex(float(x))


def vals_s(vs, mode):
    return ",".join(sc(v, mode) for v in vs) if vs else "-"


def ints(rng, n, lo=-6, hi=6, nonzero=False):
    out = []
    for _ in range(n):
        v = rng.randint(lo, hi)
        while nonzero and v == 0:
            v = rng.randint(lo, hi)
        out.append(v)
    return out


def floats(rng, n, lo=-4.0, hi=4.0):
    return [rng.uniform(lo, hi) for _ in range(n)]


def posfloats(rng, n, lo=0.25, hi=4.0):
    return [rng.uniform(lo, hi) for _ in range(n)]


def gen_vals(rng, n, mode, kind="any"):
    """kind: any | nonzero | pos | pow2 (divisors that keep the exact channel exact)"""
    if mode == "exact":
        if kind == "pow2":
            return [rng.choice([1, 2, 4, -1, -2, -4, Fraction(1, 2)]) for _ in range(n)]
        if kind == "pos":
            return ints(rng, n, 1, 6)
        if kind == "nonzero":
            return ints(rng, n, nonzero=True)
        return ints(rng, n)
    if kind in ("pos", "pow2"):
        return posfloats(rng, n)
    if kind == "nonzero":
        return [v if abs(v) > 0.25 else 0.5 for v in floats(rng, n)]
    return floats(rng, n)


def seed_vals(rng, n, mode):
    """seeds: mostly dense, sometimes all zeros, one-hot or sparse (rows of a Jacobian)"""
    x = rng.random()
    if x < 0.12:
        return [0] * n
    if x < 0.27:
        v = [0] * n
        v[rng.randrange(n)] = rng.choice([1, -2, 3])
        return v
    if x < 0.37:
        return [rng.choice([0, 0, 1, -1]) for _ in range(n)]
    return gen_vals(rng, n, mode)


def all_shapes(maxrank, maxsize):
    out = []
    for r in range(1, maxrank + 1):
        for t in itertools.product(range(1, maxsize + 1), repeat=r):
            out.append(list(t))
    return out


def compat(a, b):
    r = max(len(a), len(b))
    out = []
    for i in range(1, r + 1):
        x = a[-i] if i <= len(a) else 1
        y = b[-i] if i <= len(b) else 1
        if x != y and x != 1 and y != 1:
            return None
        out.append(max(x, y))
    return out[::-1]


def rand_shape(rng, maxrank=4, maxsize=3, minrank=1):
    return [rng.randint(1, maxsize) for _ in range(rng.randint(minrank, maxrank))]


def rand_compat_pair(rng, maxrank=4, maxsize=4):
    """a random broadcast-compatible pair with interesting unit / missing dimensions"""
    out = rand_shape(rng, maxrank, maxsize)

    def degrade(s):
        s = [1 if rng.random() < 0.35 else d for d in s]
        cut = rng.randint(0, len(s) - 1) if rng.random() < 0.5 else 0
        return s[cut:]
    a, b = degrade(out), degrade(out)
    if rng.random() < 0.5:
        a = list(out)
    else:
        b = list(out)
    return a, b


# ---------------------------------------------------------------- family: construct (C16)

def fam_special(rng, n, tier, mode="float"):
    """C16 on the values where `==` is not `bitwise equal`: infinities, signed zeros, NaN, extreme magnitudes.
    Construction, row-major reading, equality with a copy / a clone / a reshaped-back view / an array differing
    in one place, whatever the tracking state.  No arithmetic happens, so non-finite values are in scope."""
    cases = []
    inf, nan = float("inf"), float("nan")
    specials = [inf, -inf, 0.0, -0.0, 1.0, -1.0, 1.7976931348623157e308, 5e-324, 2.2250738585072014e-308, nan]
    if mode == "f32":
        specials = [inf, -inf, 0.0, -0.0, 1.0, -1.0, 3.4028234663852886e38, 1.401298464324817e-45, nan]
    rows = []
    for v in specials:
        rows.append([v, 1.0, 2.0, 3.0])
        rows.append([1.0, 2.0, 3.0, v])
    rows += [[inf, -inf, inf, -inf], [0.0, -0.0, 0.0, -0.0], [inf, 0.0, -0.0, -inf]]
    for row in rows:
        for dims in ([4], [2, 2]):
            L = ["new a %s %s" % (dims_s(dims), vals_s(row, mode)), "new b %s %s" % (dims_s(dims), vals_s(row, mode)),
                 "eq a b", "eq b a", "eq a a", "clone c a", "eq a c", "tracked c", "eq a c", "eq c b"]
            for i in range(4):
                L.append("idxflat a %d" % i)
            other = dims_s([2, 2] if dims == [4] else [4])
            L += ["reshape v a %s" % other, "reshape w v %s" % dims_s(dims), "eq a w", "eq a v"]
            for i in range(4):
                d = list(row)
                d[i] = 7.0 if d[i] != 7.0 else 8.0
                L += ["new d%d %s %s" % (i, dims_s(dims), vals_s(d, mode)), "eq a d%d" % i, "eq d%d a" % i]
            # opposite infinities / zeros of the other sign at one place
            for i in range(4):
                if row[i] in (inf, -inf):
                    d = list(row); d[i] = -row[i]
                    L += ["new e%d %s %s" % (i, dims_s(dims), vals_s(d, mode)), "eq a e%d" % i]
            cases.append(Case(L, ("special", tuple(repr(x) for x in row), tuple(dims)), ["special-values"], mode))
    return cases


def fam_construct(rng, n, tier):
    cases = []
    shapes = all_shapes(4, 3) if tier == "thorough" else all_shapes(3, 3) + [s for s in all_shapes(4, 2)]
    for s in shapes:
        cnt = prod(s)
        vals = [((i * 7 + 3) % 13) - 6 for i in range(cnt)]
        L = ["new a %s %s" % (dims_s(s), vals_s(vals, "exact")), "show a"]
        for idx in itertools.product(*[range(d) for d in s]):
            L.append("idx a %s" % dims_s(idx))
        for i in range(cnt):
            L.append("idxflat a %d" % i)
        L.append("new b %s %s" % (dims_s(s), vals_s(vals, "exact")))
        L.append("eq a b")
        L.append("tracked b")
        L.append("eq a b")
        L.append("scale c b 1")       # b now carries a graph consumer; equality ignores it
        L.append("eq c a")
        L.append("backward c -")
        L.append("eq a b")             # b holds a gradient now
        if cnt > 1:
            v2 = list(vals)
            v2[rng.randrange(cnt)] += 1
            L.append("new d %s %s" % (dims_s(s), vals_s(v2, "exact")))
            L.append("eq a d")
        L.append("flat f %s" % vals_s(vals, "exact"))
        L.append("eq f a")
        L.append("new e %s %s" % (dims_s(s + [1]), vals_s(vals, "exact")))
        L.append("eq a e")             # same values, different dimensions
        # views and clones share the buffer: equality still looks at dimensions and values only
        L.append("reshape v1 a %s" % dims_s([cnt]))
        L.append("reshape v2 a %s" % dims_s(s + [1]))
        L.append("reshape v3 a %s" % dims_s(s[::-1]))
        L.append("reshape v4 v3 %s" % dims_s(s))
        L.append("clone k a")
        for x in ("v1", "v2", "v3", "v4", "k"):
            L.append("eq a %s" % x)
            L.append("eq %s a" % x)
        L.append("eq v1 f")
        L.append("eq v2 e")
        L.append("zeros z %s" % dims_s(s))
        cases.append(Case(L, ("shape", tuple(s)), ["rank%d" % len(s), "valid"]))
    # nesting (arr! of arr!) up to depth 4
    for _ in range(max(20, n // 4)):
        inner = rand_shape(rng, 3, 3)
        k = rng.randint(1, 3)
        L = []
        for j in range(k):
            L.append("new p%d %s %s" % (j, dims_s(inner), vals_s(ints(rng, prod(inner)), "exact")))
        L.append("nest q %s" % ",".join("p%d" % j for j in range(k)))
        for idx in itertools.product(*[range(d) for d in [k] + inner]):
            L.append("idx q %s" % dims_s(idx))
        L.append("nest r q,q")
        L.append("show r")
        L.append("idx r %s" % dims_s([1] + [0] * (len(inner) + 1)))
        cases.append(Case(L, ("nest", k, tuple(inner)), ["nest", "valid"]))
    # malformed stream: one refusal per case
    bad = []
    for s in all_shapes(3, 2):
        for z in range(len(s)):
            t = list(s)
            t[z] = 0
            bad.append(["new a %s %s" % (dims_s(t), vals_s([0] * max(1, prod(t)), "exact"))])
            bad.append(["zeros a %s" % dims_s(t)])
        bad.append(["new a %s %s" % (dims_s(s), vals_s([1] * (prod(s) + 1), "exact"))])
        if prod(s) > 1:
            bad.append(["new a %s %s" % (dims_s(s), vals_s([1] * (prod(s) - 1), "exact"))])
        v = vals_s([1] * prod(s), "exact")
        bad.append(["new a %s %s" % (dims_s(s), v), "idxflat a %d" % prod(s)])
        bad.append(["new a %s %s" % (dims_s(s), v), "idx a %s" % dims_s([d for d in s[:-1]] + [s[-1] * prod(s)])])
        if len(s) > 1:
            bad.append(["new a %s %s" % (dims_s(s), v), "idx a %s" % dims_s(s[1:])])
        t = list(s)
        t[-1] += 1
        bad.append(["new a %s %s" % (dims_s(s), v), "new b %s %s" % (dims_s(t), vals_s([1] * prod(t), "exact")), "nest c a,b"])
        # same element count, different dimensions: a unit dimension appended or prepended, reversed, flattened
        for t in (s + [1], [1] + s, list(reversed(s)), [prod(s)], s[:-1] + [1, s[-1]]):
            if t != s:
                for order in ("a,b", "b,a", "a,a,b"):
                    bad.append(["new a %s %s" % (dims_s(s), v), "new b %s %s" % (dims_s(t), v), "nest c %s" % order])
    bad.append(["nest c -"])
    # parts that share one buffer: an array next to a reshaped view / a clone of itself (same count, other dimensions
    # must be refused; same dimensions must give the doubled array)
    for (s_, t_) in (([2, 3], [3, 2]), ([2, 3], [6]), ([6], [2, 3]), ([2, 2], [4]), ([2, 2], [1, 4]), ([1, 3], [3, 1]), ([3], [3, 1]), ([3], [1, 3])):
        vv = vals_s(list(range(1, prod(s_) + 1)), "exact")
        bad.append(["new a %s %s" % (dims_s(s_), vv), "reshape v a %s" % dims_s(t_), "nest c a,v"])
        bad.append(["new a %s %s" % (dims_s(s_), vv), "reshape v a %s" % dims_s(t_), "nest c v,a"])
        bad.append(["new a %s %s" % (dims_s(s_), vv), "reshape v a %s" % dims_s(t_), "clone k a", "nest c k,v,a"])
    for s_ in ([2, 3], [3], [1, 2]):
        vv = vals_s(list(range(1, prod(s_) + 1)), "exact")
        bad.append(["new a %s %s" % (dims_s(s_), vv), "clone k a", "reshape v a %s" % dims_s(s_), "nest c a,k", "nest d a,v,k", "nest e a,a"])
    for i, L in enumerate(bad):
        cases.append(Case(L, ("bad", i, tuple(L)), ["malformed"]))
    return cases


# ---------------------------------------------------------------- family: ewise (C04, C03)

EW_OPS = ["add", "sub", "mul", "div", "axpy"]


def ewise_case(rng, a, b, mode, ops=EW_OPS, grads=False, uses=1):
    L = []
    L.append("new a %s %s" % (dims_s(a), vals_s(gen_vals(rng, prod(a), mode), mode)))
    bk = "pow2" if "div" in ops else "any"
    L.append("new b %s %s" % (dims_s(b), vals_s(gen_vals(rng, prod(b), mode, bk), mode)))
    out = compat(a, b)
    if grads:
        L.append("tracked a")
        L.append("tracked b")
    for op in ops:
        if op == "axpy":
            L.append("axpy r_%s %s a b" % (op, sc(rng.choice([2, -3, 1, Fraction(1, 2)]) if mode == "exact" else rng.uniform(-2, 2), mode)))
        else:
            L.append("%s r_%s a b" % (op, op))
        if out is None:
            break
        if grads:
            r = "r_%s" % op
            for u in range(1, uses):
                L.append("%s t%d a b" % (op if op != "axpy" else "add", u))
                L.append("add %s %s t%d" % (r, r, u))
            L.append("new s %s %s" % (dims_s(out), vals_s(gen_vals(rng, prod(out), mode), mode)))
            L.append("backward %s s" % r)
            L.append("grad a")
            L.append("grad b")
            L.append("cleargrad a")
            L.append("cleargrad b")
    return L


def fam_ewise(rng, n, tier, mode="exact", grads=False):
    cases = []
    if tier == "thorough":
        shapes = all_shapes(4, 3)
        if grads:
            # the forward-mode reference costs (leaf elements) x (program): keep the exhaustive
            # gradient grid to rank <= 3 size <= 3 and rank 4 size <= 2
            shapes = all_shapes(3, 3) + [x for x in all_shapes(4, 2) if len(x) == 4]
    else:
        shapes = all_shapes(3, 2)
    for a in shapes:
        for b in shapes:
            ok = compat(a, b) is not None
            if ok:
                if grads:
                    for op in (["mul", "add"] if tier == "quick" else ["mul", "add", "sub", "div"]):
                        cases.append(Case(ewise_case(rng, a, b, mode, [op], True, rng.choice([1, 2, 3])),
                                          ("g", op, tuple(a), tuple(b)), ["compat", op, "grad"], mode,
                                          nontrivial=(a != b)))
                else:
                    cases.append(Case(ewise_case(rng, a, b, mode), ("p", tuple(a), tuple(b)),
                                      ["compat", "bcast" if a != b else "same"], mode, nontrivial=(a != b)))
            elif not grads:
                op = rng.choice(EW_OPS)
                cases.append(Case(ewise_case(rng, a, b, mode, [op]), ("i", op, tuple(a), tuple(b)),
                                  ["incompatible", op], mode))
    # high ranks (any fixed-size index buffer in the walk shows here): mostly unit dimensions
    for (a, b) in (([2, 1, 1, 1, 1, 1, 1, 1, 3], [3]), ([3], [2, 1, 1, 1, 1, 1, 1, 1, 3]), ([2, 1, 1, 1, 1, 1, 1, 1, 1, 2], [1, 2, 1, 1, 1, 1, 1, 1, 1, 1]),
                   ([1, 2, 1, 1, 1, 1, 1, 1, 2], [2, 1, 1, 1, 1, 1, 1, 1, 1]), ([2, 1, 2, 1, 2, 1, 2, 1, 2], [2, 2, 2, 2, 2, 2, 2, 2, 2]),
                   ([1, 1, 1, 1, 1, 1, 1, 1, 1, 1, 2], [2, 1, 1, 1, 1, 1, 1, 1, 1, 1, 1])):
        ops = [rng.choice(["mul", "add", "sub"])] if grads else ["add", "mul", "sub"]
        if compat(a, b) is not None:
            cases.append(Case(ewise_case(rng, a, b, mode, ops, grads, 1), ("hr", tuple(ops), tuple(a), tuple(b), grads),
                              ["compat", "rank%d" % max(len(a), len(b))], mode, nontrivial=True))
    for _ in range(n):
        if rng.random() < 0.8:
            a, b = rand_compat_pair(rng, 5 if tier == "thorough" else 4, 5)
        else:
            a, b = rand_shape(rng, 4, 4), rand_shape(rng, 4, 4)
        ok = compat(a, b) is not None
        if grads and not ok:
            continue
        if grads and max(prod(a), prod(b)) > 72:
            # see above: large operands only in the value families
            a, b = [min(d, 2) for d in a], [min(d, 2) for d in b]
        ops = [rng.choice(["mul", "add", "div", "sub"])] if grads else (EW_OPS if ok else [rng.choice(EW_OPS)])
        cases.append(Case(ewise_case(rng, a, b, mode, ops, grads, rng.choice([1, 2, 3])),
                          ("r", tuple(ops), tuple(a), tuple(b), grads),
                          ["compat" if ok else "incompatible", "random"], mode, nontrivial=(a != b)))
    return cases


# ---------------------------------------------------------------- family: matmul (C05)

LEADS_Q = [[], [1], [2], [1, 2], [2, 1], [2, 3]]
LEADS_T = [[], [1], [2], [3], [1, 2], [2, 1], [2, 3], [1, 1], [3, 2]]


def matmul_case(rng, la, lb, m, k, n, ta, tb, cform, mode, grads=False, kmis=0):
    ad = la + ([k, m] if ta else [m, k])
    kb = k + kmis
    bd = lb + ([n, kb] if tb else [kb, n])
    L = ["new a %s %s" % (dims_s(ad), vals_s(gen_vals(rng, prod(ad), mode), mode)),
         "new b %s %s" % (dims_s(bd), vals_s(gen_vals(rng, prod(bd), mode), mode))]
    cd = {0: None, 1: [n], 2: [m, n], 3: [1, n], 4: [1]}.get(cform, "batched")
    if cd == "batched":
        # an additive term with its own leading dimensions that fit the broadcast batch dimensions:
        # form 5: the full batch shape, 6: unit dimensions where possible (alternating), 7: only the innermost batch dimension
        lead_ = compat(la, lb) or []
        if not lead_:
            cd = [m, n]
        elif cform == 5:
            cd = lead_ + [m, n]
        elif cform == 6:
            cd = [d if i % 2 == 0 else 1 for i, d in enumerate(lead_)] + [1 if m > 1 and rng.random() < 0.5 else m, n]
        elif cform == 7:
            cd = lead_[-1:] + [m, n]
        else:
            cd = [1 if i % 2 == 0 else d for i, d in enumerate(lead_)] + [m, n]
    if cd is not None:
        L.append("new c %s %s" % (dims_s(cd), vals_s(gen_vals(rng, prod(cd), mode), mode)))
    if grads:
        L += ["tracked a", "tracked b"] + (["tracked c"] if cd is not None else [])
    L.append("matmul r a %s b %s %s" % ("T" if ta else "N", "T" if tb else "N", "c" if cd is not None else "-"))
    lead = compat(la, lb)
    if grads and lead is not None and kmis == 0:
        od = lead + [m, n]
        L.append("new s %s %s" % (dims_s(od), vals_s(gen_vals(rng, prod(od), mode), mode)))
        L.append("backward r s")
        L += ["grad a", "grad b"] + (["grad c"] if cd is not None else [])
    return L


def fam_matmul(rng, n, tier, mode="exact", grads=False):
    cases = []
    leads = LEADS_T if tier == "thorough" else LEADS_Q
    sizes = [1, 2, 3] if tier == "thorough" else [1, 2]
    for la in leads:
        for lb in leads:
            for ta in (False, True):
                for tb in (False, True):
                    combos = [(m, k, nn) for m in sizes for k in sizes for nn in sizes]
                    if tier != "thorough":
                        combos = rng.sample(combos, 2)
                    for (m, k, nn) in combos:
                        cf = rng.randrange(9) if (la or lb) else rng.randrange(5)
                        cases.append(Case(matmul_case(rng, la, lb, m, k, nn, ta, tb, cf, mode, grads),
                                          ("mm", tuple(la), tuple(lb), m, k, nn, ta, tb, cf, grads),
                                          ["lead%d%d" % (len(la), len(lb)), "t%d%d" % (ta, tb), "c%d" % cf,
                                           "refuse" if compat(la, lb) is None else "ok"], mode))
    # additive term forms on the 2-D core, exhaustively
    for ta in (False, True):
        for tb in (False, True):
            for cf in range(5):
                for (m, k, nn) in [(2, 3, 2), (1, 2, 3), (3, 1, 2)]:
                    cases.append(Case(matmul_case(rng, [], [], m, k, nn, ta, tb, cf, mode, grads),
                                      ("mm2", m, k, nn, ta, tb, cf, grads), ["core", "c%d" % cf], mode))
    if not grads:
        # inner mismatch is refused
        for ta in (False, True):
            for tb in (False, True):
                for la in ([], [2]):
                    cases.append(Case(matmul_case(rng, la, la, 2, 2, 2, ta, tb, 0, mode, False, kmis=1),
                                      ("mmbad", ta, tb, tuple(la)), ["innermismatch"], mode))
        # two batch dimensions on one side, a plain matrix on the other, every form of the additive term
        for (la_, lb_) in (([2, 2], []), ([], [2, 2]), ([2, 2], [2, 1]), ([3, 2], [2]), ([2, 1], [1, 3])):
            for ta in (False, True):
                for tb in (False, True):
                    for cf in range(9):
                        cases.append(Case(matmul_case(rng, la_, lb_, 2, 3, 2, ta, tb, cf, mode, grads),
                                          ("mm2b", tuple(la_), tuple(lb_), ta, tb, cf, grads), ["batch2", "c%d" % cf], mode))
        # rank-1 forms
        for k in (1, 2, 3):
            for nn in (1, 2, 3):
                v = vals_s(gen_vals(rng, k, mode), mode)
                M = vals_s(gen_vals(rng, k * nn, mode), mode)
                cases.append(Case(["new a %d %s" % (k, v), "new b %s %s" % (dims_s([k, nn]), M), "matmul r a N b N -"],
                                  ("r1a", k, nn), ["rank1"], mode))
                cases.append(Case(["new a %d %s" % (k, v), "new b %s %s" % (dims_s([nn, k]), M), "matmul r a N b T -"],
                                  ("r1at", k, nn), ["rank1"], mode))
                cases.append(Case(["new a %d %s" % (k, v), "new b %s %s" % (dims_s([2, k, nn]), vals_s(gen_vals(rng, 2 * k * nn, mode), mode)),
                                   "matmul r a N b N -"], ("r1ab", k, nn), ["rank1"], mode))
                cases.append(Case(["new b %d %s" % (k, v), "new a %s %s" % (dims_s([nn, k]), M), "matmul r a N b T -"],
                                  ("r1b", k, nn), ["rank1"], mode))
            w = vals_s(gen_vals(rng, k, mode), mode)
            cases.append(Case(["new a %d %s" % (k, v), "new b %d %s" % (k, w), "matmul r a N b N -"],
                              ("dot", k), ["rank1", "dot"], mode))
    for _ in range(n):
        la, lb = rng.choice(LEADS_T), rng.choice(LEADS_T)
        if rng.random() < 0.7:
            lead = rand_shape(rng, 2, 3)
            la = [1 if rng.random() < 0.3 else d for d in lead][rng.randint(0, len(lead) - 1) if rng.random() < 0.4 else 0:]
            lb = [1 if rng.random() < 0.3 else d for d in lead][rng.randint(0, len(lead) - 1) if rng.random() < 0.4 else 0:]
        m, k, nn = rng.randint(1, 4), rng.randint(1, 4), rng.randint(1, 4)
        ta, tb, cf = rng.random() < 0.5, rng.random() < 0.5, rng.randrange(9)
        cases.append(Case(matmul_case(rng, la, lb, m, k, nn, ta, tb, cf, mode, grads),
                          ("mmr", tuple(la), tuple(lb), m, k, nn, ta, tb, cf, grads),
                          ["random", "t%d%d" % (ta, tb), "c%d" % cf], mode))
    return cases


# ---------------------------------------------------------------- family: conv (C06)

def conv_case(rng, batch, depth, rows, cols, count, fr, fc, sr, sc_, mode, grads=False):
    idims = batch + [depth, rows, cols]
    fdims = [count, depth, fr, fc]
    L = ["new a %s %s" % (dims_s(idims), vals_s(gen_vals(rng, prod(idims), mode), mode)),
         "new f %s %s" % (dims_s(fdims), vals_s(gen_vals(rng, prod(fdims), mode), mode))]
    if grads:
        L += ["tracked a", "tracked f"]
    L.append("conv r a f %d %d" % (sr, sc_))
    if grads and fr <= rows and fc <= cols and sr >= 1 and sc_ >= 1:
        od = batch + [count, (rows - fr) // sr + 1, (cols - fc) // sc_ + 1]
        L.append("new s %s %s" % (dims_s(od), vals_s(gen_vals(rng, prod(od), mode), mode)))
        L.append("backward r s")
        L += ["grad a", "grad f"]
    return L


def fam_conv(rng, n, tier, mode="exact", grads=False):
    cases = []
    batches = [[], [1], [2], [3], [2, 2]] if tier == "thorough" else [[], [1], [2]]
    grid = []
    for batch in batches:
        for depth in (1, 2):
            for rows in range(1, 5):
                for cols in range(1, 5):
                    for count in (1, 2):
                        for fr in range(1, min(rows, 3) + 1):
                            for fc in range(1, min(cols, 3) + 1):
                                for sr in (1, 2):
                                    for sc_ in (1, 2, 3):
                                        grid.append((batch, depth, rows, cols, count, fr, fc, sr, sc_))
    if tier != "thorough":
        grid = rng.sample(grid, min(len(grid), max(150, n)))
    for g in grid:
        cases.append(Case(conv_case(rng, *g, mode=mode, grads=grads), ("cv",) + tuple(map(str, g)) + (grads,),
                          ["batch%d" % len(g[0]), "overlap" if (g[7] < g[5] or g[8] < g[6]) else "disjoint",
                           "uneven" if ((g[2] - g[5]) % g[7] or (g[3] - g[6]) % g[8]) else "even"], mode))
    for _ in range(n):
        batch = rng.choice([[], [1], [2], [3], [2, 2]])
        depth, count = rng.randint(1, 3), rng.randint(1, 3)
        rows, cols = rng.randint(1, 6), rng.randint(1, 6)
        fr, fc = rng.randint(1, min(rows, 3)), rng.randint(1, min(cols, 3))
        sr, sc_ = rng.randint(1, 3), rng.randint(1, 3)
        g = (batch, depth, rows, cols, count, fr, fc, sr, sc_)
        cases.append(Case(conv_case(rng, *g, mode=mode, grads=grads), ("cvr",) + tuple(map(str, g)) + (grads,),
                          ["random", "batch%d" % len(batch)], mode))
    # several convolutions in one program: the same image again, a reshaped view of the same buffer with
    # other rows / cols / depth, the same filters on another image - each call stands on its own
    views = [([1, 4, 6], [1, 6, 4]), ([1, 4, 6], [2, 3, 4]), ([2, 2, 6], [1, 4, 6]), ([1, 3, 4], [1, 4, 3]), ([1, 1, 2, 6], [1, 3, 4])]
    for (d1, d2) in views:
        for trk in (False, True):
            for (fr, fc, sr, sc_) in ((2, 2, 1, 1), (1, 2, 1, 2), (2, 1, 2, 1)):
                dep1, dep2 = d1[-3], d2[-3]
                L = ["new x %s %s" % (dims_s(d1), vals_s(gen_vals(rng, prod(d1), mode), mode))]
                L.append("new f1 %s %s" % (dims_s([1, dep1, fr, fc]), vals_s(gen_vals(rng, dep1 * fr * fc, mode), mode)))
                L.append("new f2 %s %s" % (dims_s([2, dep2, fr, fc]), vals_s(gen_vals(rng, 2 * dep2 * fr * fc, mode), mode)))
                if trk:
                    L += ["tracked x", "tracked f1", "tracked f2"]
                L += ["conv r1 x f1 %d %d" % (sr, sc_), "reshape y x %s" % dims_s(d2), "conv r2 y f2 %d %d" % (sr, sc_),
                      "conv r3 x f1 %d %d" % (sr, sc_), "clone z y", "conv r4 z f2 %d %d" % (sr, sc_)]
                if trk and grads:
                    L += ["backward r2 -", "grad x", "grad f2", "backward r3 -", "grad x", "grad f1"]
                cases.append(Case(L, ("cvseq", tuple(d1), tuple(d2), trk, fr, fc, sr, sc_, grads), ["sequence", "views"], mode))
    if not grads:
        # refusals: filter larger than the image, too few dimensions, zero stride
        cases.append(Case(conv_case(rng, [], 1, 2, 2, 1, 3, 1, 1, 1, mode), ("cvbad", 1), ["refuse"], mode))
        cases.append(Case(conv_case(rng, [], 1, 2, 2, 1, 1, 3, 1, 1, mode), ("cvbad", 2), ["refuse"], mode))
        cases.append(Case(conv_case(rng, [], 1, 2, 2, 1, 1, 1, 0, 1, mode), ("cvbad", 3), ["refuse"], mode))
        cases.append(Case(["new a 2,2 %s" % vals_s([1, 2, 3, 4], mode), "new f 1,1,1,1 %s" % vals_s([1], mode), "conv r a f 1 1"], ("cvbad", 4), ["refuse"], mode))
        cases.append(Case(["new a 1,2,2 %s" % vals_s([1, 2, 3, 4], mode), "new f 1,1 %s" % vals_s([1], mode), "conv r a f 1 1"], ("cvbad", 5), ["refuse"], mode))
    return cases


def fam_conv_large(rng, n, tier, mode="exact"):
    """C06 at sizes where evaluating the whole model is out of reach: the implementation computes the whole
    convolution, single output elements (corners and random positions of every image / filter) are compared
    with the sliding-window element `convElem` - proved equal to indexing the model's `conv` (C06_convat).
    Unrolled sizes per image from 2^10 to beyond 2^20, unequal strides, non-square images and filters,
    untracked and tracked operands."""
    cases = []
    #          batch depth rows cols count fr fc sr sc
    configs = [([], 1, 18, 21, 2, 3, 2, 1, 2), ([2], 2, 30, 26, 2, 3, 3, 2, 1), ([], 3, 64, 60, 4, 3, 3, 1, 2),
               ([2], 1, 130, 120, 1, 2, 2, 2, 1), ([], 4, 70, 90, 2, 4, 5, 1, 3), ([2], 6, 130, 132, 3, 5, 5, 1, 2),
               ([], 6, 132, 130, 2, 5, 5, 2, 1)]
    if tier == "thorough":
        configs += [([3], 6, 140, 150, 2, 5, 5, 1, 2), ([], 8, 200, 180, 2, 5, 4, 2, 3)]
    for (batch, depth, rows, cols, count, fr, fc, sr, sc_) in configs:
        orows, ocols = (rows - fr) // sr + 1, (cols - fc) // sc_ + 1
        unrolled = orows * ocols * depth * fr * fc
        for trk in ((False, True) if unrolled < 300000 else (False,)):
            idims = batch + [depth, rows, cols]
            L = ["new x %s %s" % (dims_s(idims), vals_s([rng.randint(-2, 2) for _ in range(prod(idims))], mode)),
                 "new f %s %s" % (dims_s([count, depth, fr, fc]), vals_s([rng.randint(-2, 2) for _ in range(count * depth * fr * fc)], mode))]
            if trk:
                L += ["tracked x", "tracked f"]
            picks = set()
            for b in itertools.product(*[range(d) for d in batch]):
                for (y, x_) in ((0, 0), (orows - 1, ocols - 1), (0, ocols - 1), (orows - 1, 0)):
                    picks.add(tuple(b) + (rng.randrange(count), y, x_))
            while len(picks) < 4 * max(1, prod(batch)) + 6:
                picks.add(tuple(rng.randrange(d) for d in batch) + (rng.randrange(count), rng.randrange(orows), rng.randrange(ocols)))
            for pk in sorted(picks):
                L.append("convat x f %d %d %s" % (sr, sc_, dims_s(pk)))
            cases.append(Case(L, ("cvlarge", tuple(idims), count, fr, fc, sr, sc_, trk), ["large", "unrolled>=2^%d" % (unrolled.bit_length() - 1)], mode))
    return cases


def fam_matmul_large(rng, n, tier, mode="exact"):
    """C05 at sizes where evaluating the whole model is out of reach: single elements of the implementation's
    whole product against `matmulElem` (= indexing the model's matmul, C05_matmulat).  Products of 2^12 .. 2^24
    multiply-adds, all four flag combinations, batched and broadcast leading dimensions, with and without a bias."""
    cases = []
    #          la     lb     m    k    n
    configs = [([], [], 17, 33, 9), ([2], [], 40, 64, 31), ([], [3], 65, 70, 50), ([2], [2], 128, 130, 64),
               ([], [], 300, 257, 200), ([2, 1], [1, 2], 90, 100, 110), ([], [], 1030, 260, 70)]
    if tier == "thorough":
        configs += [([], [], 700, 600, 500), ([4], [1], 256, 300, 200)]
    for (la, lb, m, k, nn) in configs:
        for (ta, tb) in ((False, False), (True, False), (False, True), (True, True)):
            for bias in (False, True):
                if bias and (ta != tb):
                    continue
                ad = la + ([k, m] if ta else [m, k])
                bd = lb + ([nn, k] if tb else [k, nn])
                L = ["new a %s %s" % (dims_s(ad), vals_s([rng.randint(-2, 2) for _ in range(prod(ad))], mode)),
                     "new b %s %s" % (dims_s(bd), vals_s([rng.randint(-2, 2) for _ in range(prod(bd))], mode))]
                if bias:
                    L.append("new c %d %s" % (nn, vals_s([rng.randint(-3, 3) for _ in range(nn)], mode)))
                if rng.random() < 0.3:
                    L += ["tracked a", "tracked b"]
                lead = compat(la, lb) if (la or lb) else []
                picks = set()
                for bidx in itertools.product(*[range(d) for d in lead]):
                    for (r, j) in ((0, 0), (m - 1, nn - 1), (0, nn - 1), (m - 1, 0)):
                        picks.add(tuple(bidx) + (r, j))
                while len(picks) < 4 * max(1, prod(lead)) + 4:
                    picks.add(tuple(rng.randrange(d) for d in lead) + (rng.randrange(m), rng.randrange(nn)))
                for pk in sorted(picks):
                    L.append("matmulat a %s b %s %s %s" % ("T" if ta else "N", "T" if tb else "N", "c" if bias else "-", dims_s(pk)))
                work = max(1, prod(lead)) * m * k * nn
                cases.append(Case(L, ("mmlarge", tuple(ad), tuple(bd), ta, tb, bias), ["large", "madds>=2^%d" % (work.bit_length() - 1)], mode))
    return cases


def fam_bigpasses(rng, n, tier, mode="float"):
    """long buffers (2^10 .. 2^13 elements) under several passes and several consumers: every element map
    differentiated twice with different seeds (nothing kept between passes), a long array with a plain and a
    broadcasting consumer (contributions reduced before they are added)"""
    cases = []
    maps = (["sigmoid", "exp", "powf", "recip"] if tier != "thorough" else ["sigmoid", "exp", "relu", "recip", "ln", "powf", "neg", "scale"]) if mode != "exact" else ["relu", "neg", "scale", "powf"]
    for m in maps:
        for ln_ in ((1024,) if tier != "thorough" else (1024, 1100)):
            arg = {"scale": " " + sc(3, mode), "powf": " " + sc(2, mode)}.get(m, "")
            vals = posfloats(rng, ln_, 0.5, 2.0) if mode != "exact" else [rng.randint(1, 3) for _ in range(ln_)]
            sd = lambda: (floats(rng, ln_, -2, 2) if mode != "exact" else [rng.randint(-3, 3) for _ in range(ln_)])
            L = ["new a %d %s" % (ln_, vals_s(vals, mode)), "tracked a", "%s s a%s" % (m, arg),
                 "new s1 %d %s" % (ln_, vals_s(sd(), mode)), "backward s s1", "grad a", "cleargrad a",
                 "new s2 %d %s" % (ln_, vals_s(sd(), mode)), "backward s s2", "grad a", "backward s -", "grad a"]
            cases.append(Case(L, ("bigmap", m, ln_), ["long", m, "two-passes"], mode))
    return cases


def fam_bigshare(rng, n, tier, mode="exact"):
    """long tracked arrays (2^12 .. 2^13+ elements) with two or three consumers, one of them broadcasting the array
    over rows: the contributions are reduced to the array's shape before they are added, in either arrival order.
    Run without the forward-mode reference (its cost is one evaluation per input element): implementation
    against the model."""
    cases = []
    for (ln_, rowsl) in ((4096, (2,)), (8200, (2,)), (8192, (3,))):
        for first in ("fresh", "broadcast"):
            for rows in rowsl:
                vals = [rng.randint(-3, 3) for _ in range(ln_)]
                xv = [rng.randint(-3, 3) for _ in range(rows * ln_)]
                L = ["new a %d %s" % (ln_, vals_s(vals, mode)), "tracked a", "new x %d,%d %s" % (rows, ln_, vals_s(xv, mode)),
                     "scale r1 a %s" % sc(2, mode), "mul r2 x a", "sum t2 r2 2", "sum t1 r1 1",
                     "add z t1 t2" if first == "fresh" else "add z t2 t1", "backward z -", "grad a", "backward z -", "grad a"]
                cases.append(Case(L, ("bigshare", ln_, first, rows), ["long", "two-consumers", "len%d" % ln_], mode))
    return cases


FAMILIES_LATE = {"conv_large": fam_conv_large, "matmul_large": fam_matmul_large, "bigpasses": fam_bigpasses, "bigshare": fam_bigshare}

# ---------------------------------------------------------------- family: reduce-map (C07)

MAPS_EXACT = ["neg", "relu"]
MAPS_FLOAT = ["neg", "relu", "ln", "exp", "recip", "sigmoid", "softmax"]


def fam_reduce(rng, n, tier, mode="exact", grads=False):
    cases = []
    shapes = all_shapes(4, 3) if tier == "thorough" else all_shapes(3, 3)
    for s in shapes:
        cnt = prod(s)
        kind = "pos" if mode != "exact" else "any"
        L = ["new a %s %s" % (dims_s(s), vals_s(gen_vals(rng, cnt, mode, kind), mode))]
        if grads:
            L.append("tracked a")
        for k in range(0, len(s) + 1):
            L.append("sum r%d a %d" % (k, k))
            if grads:
                L.append("new s%d %s %s" % (k, dims_s(s if k == 0 else s[:len(s) - k] + [1]),
                                            vals_s(gen_vals(rng, cnt if k == 0 else prod(s[:len(s) - k]), mode), mode)))
                L.append("backward r%d s%d" % (k, k))
                L.append("grad a")
                L.append("cleargrad a")
        L.append("sumall a")
        if not grads:
            L.append("sum rx a %d" % (len(s) + 1))
        cases.append(Case(L, ("sum", tuple(s), mode, grads), ["sum", "rank%d" % len(s)], mode))
        # reshape: every factorisation into <= 3 factors, and a wrong count
        L = ["new a %s %s" % (dims_s(s), vals_s(gen_vals(rng, cnt, mode), mode))]
        if grads:
            L.append("tracked a")
        facts = [[cnt]] + [[d, cnt // d] for d in range(1, cnt + 1) if cnt % d == 0]
        for i, f in enumerate(facts[:6]):
            L.append("reshape v%d a %s" % (i, dims_s(f)))
            if grads:
                L.append("new s%d %s %s" % (i, dims_s(f), vals_s(gen_vals(rng, cnt, mode), mode)))
                L.append("backward v%d s%d" % (i, i))
                L.append("grad a")
                L.append("cleargrad a")
        if not grads:
            L.append("reshape w a %s" % dims_s([cnt + 1]))
        cases.append(Case(L, ("reshape", tuple(s), mode, grads), ["reshape"], mode))
        # element maps
        maps = MAPS_EXACT if mode == "exact" else MAPS_FLOAT
        # x = 0 with an exponent below 1 is outside powf's differentiable domain (0 * 0^(e-1))
        L = ["new a %s %s" % (dims_s(s), vals_s(gen_vals(rng, cnt, mode, "nonzero" if (grads and mode == "exact") else kind), mode))]
        if grads:
            L.append("tracked a")
        steps = [(m, "%s m_%s a" % (m, m)) for m in maps]
        steps.append(("scale", "scale m_scale a %s" % sc(rng.choice([2, -3, Fraction(1, 2), 0]) if mode == "exact" else rng.uniform(-3, 3), mode)))
        for e in ([0, 1, 2, 3] if mode == "exact" else [rng.uniform(-3, 3), 2.0, 0.5, 3.0, -1.0]):
            steps.append(("powf", "powf m_powf a %s" % sc(e, mode)))
        for (m, line) in steps:
            L.append(line)
            if grads:
                L.append("new sd %s %s" % (dims_s(s), vals_s(gen_vals(rng, cnt, mode), mode)))
                L.append("backward m_%s sd" % m)
                L.append("grad a")
                L.append("cleargrad a")
        cases.append(Case(L, ("maps", tuple(s), mode, grads), ["maps"], mode))
        if grads:
            # at x = 0 every exponent >= 1 has a perfectly good derivative (0, or 1 for exponent 1)
            zv = gen_vals(rng, cnt, mode)
            zv[rng.randrange(cnt)] = 0
            L = ["new a %s %s" % (dims_s(s), vals_s(zv, mode)), "tracked a"]
            for e in ([1, 2, 3] if mode == "exact" else [1.0, 2.0, 3.0, 1.5, 2.5]):
                L += ["powf m a %s" % sc(e, mode), "new sd %s %s" % (dims_s(s), vals_s(gen_vals(rng, cnt, mode), mode)),
                      "backward m sd", "grad a", "cleargrad a"]
            L += ["relu m a", "backward m -", "grad a"]
            cases.append(Case(L, ("powf0", tuple(s), mode), ["powf", "zero"], mode))
    return cases


FAMILIES = {
    "construct": fam_construct,
    "ewise": fam_ewise,
    "matmul": fam_matmul,
    "conv": fam_conv,
    "reduce": fam_reduce,
}


# ---------------------------------------------------------------- random programs (dag / history)

class Prog:
    """A random program builder that tracks the shape and the tracked flag of every live name, so
    that most commands are valid; values stay small so that the exact channel stays exact."""

    def __init__(self, rng, mode="exact", maxsize=3, maxrank=3):
        self.rng = rng
        self.mode = mode
        self.L = []
        self.shape = {}      # name -> dims
        self.tr = {}         # name -> tracked flag (as the program text implies)
        self.leaf = set()
        self.inter = set()
        self.counter = 0
        self.maxsize = maxsize
        self.maxrank = maxrank
        self.ops_used = []
        self.tainted = set()  # names whose buffer is shared with a gradient cell (ownership not modelled by value)
        self.alias = {}       # name -> name of the node it is another handle of (sum(0) returns a clone)
        self.fetched = set()  # nodes whose gradient has been fetched once (a second handle fetched from the same
        #                       cell would be a clone of the first: node sharing the by-value model does not have)
        self.topology = []   # (op, arg ids) for distinctness
        self.maxfan = {}

    def fresh(self, p="v"):
        self.counter += 1
        return "%s%d" % (p, self.counter)

    def emit(self, line):
        self.L.append(line)

    def new_leaf(self, dims=None, tracked=None, kind="any", name=None):
        rng = self.rng
        if dims is None:
            dims = rand_shape(rng, self.maxrank, self.maxsize)
        n = name or self.fresh("l")
        self.emit("new %s %s %s" % (n, dims_s(dims), vals_s(gen_vals(rng, prod(dims), self.mode, kind), self.mode)))
        self.shape[n] = list(dims)
        self.tr[n] = False
        self.leaf.add(n)
        if tracked is None:
            tracked = rng.random() < 0.75
        if tracked:
            self.emit("tracked %s" % n)
            self.tr[n] = True
        return n

    def node(self, v):
        return self.alias.get(v, v)

    def may_fetch(self, v):
        n = self.node(v)
        if n in self.fetched:
            return False
        self.fetched.add(n)
        return True

    def names(self):
        return sorted(self.shape)

    def pick(self, pred=None):
        c = [n for n in self.names() if pred is None or pred(n)]
        return self.rng.choice(c) if c else None

    def pick_compat(self, a):
        """a name broadcast-compatible with `a` (prefers reuse, creates a leaf otherwise)"""
        rng = self.rng
        c = [n for n in self.names() if compat(self.shape[a], self.shape[n]) is not None]
        if c and rng.random() < 0.8:
            return rng.choice(c)
        s = self.shape[a]
        t = [1 if rng.random() < 0.3 else d for d in s]
        t = t[rng.randint(0, len(t) - 1) if rng.random() < 0.4 else 0:]
        return self.new_leaf(t)

    def note(self, op, res, args):
        self.alias.pop(res, None)          # a (re)bound result is a new node
        self.ops_used.append(op)
        self.topology.append((op, tuple(args)))
        for a in args:
            self.maxfan[a] = self.maxfan.get(a, 0) + 1
        self.inter.add(res)

    def op_binary(self, op=None, a=None, b=None, res=None):
        rng = self.rng
        a = a or self.pick()
        b = b or (a if rng.random() < 0.15 else self.pick_compat(a))
        exact_div = self.mode == "exact"
        ops = ["add", "sub", "mul", "axpy"] + ([] if exact_div else ["div"])
        op = op or rng.choice(ops)
        if op == "div":
            # keep the float channel in-domain: divide by a fresh array bounded away from zero
            b = self.new_leaf(self.shape[b], kind="pos")
        r = res or self.fresh()
        if op == "axpy":
            alpha = rng.choice([2, -1, 3, -2, 1, 0]) if self.mode == "exact" else rng.choice([0.5, -1.5, 2.0, 1.0, 0.0])
            self.emit("axpy %s %s %s %s" % (r, sc(alpha, self.mode), a, b))
        else:
            self.emit("%s %s %s %s" % (op, r, a, b))
        self.shape[r] = compat(self.shape[a], self.shape[b])
        self.tr[r] = self.tr[a] or self.tr[b]
        self.leaf.discard(r)
        self.note(op, r, [a, b])
        return r

    def op_unary(self, a=None, res=None):
        rng = self.rng
        a = a or self.pick()
        s = self.shape[a]
        choices = ["neg", "scale", "relu", "sum", "reshape", "powf"]
        if self.mode != "exact":
            choices += ["sigmoid", "exp", "softmax", "recip", "ln"]
        op = rng.choice(choices)
        alias_to = None
        if op in ("recip", "ln"):
            # keep the operand positive: go through exp first
            t = self.fresh()
            self.emit("exp %s %s" % (t, a))
            self.shape[t] = list(s); self.tr[t] = self.tr[a]
            self.note("exp", t, [a])
            a = t
        r = res or self.fresh()
        if op == "scale":
            # 0, 1 and -1 are factors like any other: a new array with its own node, the usual derivative
            self.emit("scale %s %s %s" % (r, a, sc(rng.choice([2, -1, 3, Fraction(1, 2), 1, 0]) if self.mode == "exact" else rng.choice([rng.uniform(-2, 2), rng.uniform(-2, 2), 1.0, 0.0, -1.0]), self.mode)))
            self.shape[r] = list(s)
        elif op == "powf":
            self.emit("powf %s %s %s" % (r, a, sc(rng.choice([1, 2]) if self.mode == "exact" else rng.choice([2.0, 2.0, 1.0, 3.0]), self.mode)))
            self.shape[r] = list(s)
        elif op == "sum":
            k = rng.randint(0, len(s))
            self.emit("sum %s %s %d" % (r, a, k))
            self.shape[r] = list(s) if k == 0 else s[:len(s) - k] + [1]
            if k == 0 and a in self.tainted:
                self.tainted.add(r)
            if k == 0:
                alias_to = self.alias.get(a, a)
        elif op == "reshape":
            cnt = prod(s)
            ds = [d for d in range(1, cnt + 1) if cnt % d == 0]
            d = rng.choice(ds)
            t = [d, cnt // d] if rng.random() < 0.7 else [cnt]
            self.emit("reshape %s %s %s" % (r, a, dims_s(t)))
            self.shape[r] = t
            if a in self.tainted:
                self.tainted.add(r)
        else:
            self.emit("%s %s %s" % (op, r, a))
            self.shape[r] = list(s)
        self.tr[r] = self.tr[a]
        self.leaf.discard(r)
        self.note(op, r, [a])
        if alias_to is not None:
            self.alias[r] = alias_to
        return r

    def op_matmul(self, res=None):
        rng = self.rng
        a = self.pick(lambda n: len(self.shape[n]) >= 2)
        if a is None:
            return None
        s = self.shape[a]
        ta = rng.random() < 0.3
        m, k = (s[-1], s[-2]) if ta else (s[-2], s[-1])
        tb = rng.random() < 0.4
        n = rng.randint(1, self.maxsize)
        b = self.new_leaf([n, k] if tb else [k, n])
        c = "-"
        args = [a, b]
        if rng.random() < 0.5:
            c = self.new_leaf(rng.choice([[n], [1, n], [m, n], [1]]))
            args.append(c)
        r = res or self.fresh()
        self.emit("matmul %s %s %s %s %s %s" % (r, a, "T" if ta else "N", b, "T" if tb else "N", c))
        self.shape[r] = s[:-2] + [m, n]
        self.tr[r] = any(self.tr[x] for x in args)
        self.leaf.discard(r)
        self.note("matmul", r, args)
        return r

    def op_conv(self, res=None):
        """convolve an existing array of rank >= 3 (or a fresh image) with fresh filters"""
        rng = self.rng
        a = self.pick(lambda n: len(self.shape[n]) >= 3 and self.shape[n][-1] >= 2 and self.shape[n][-2] >= 2)
        if a is None or rng.random() < 0.3:
            a = self.new_leaf([rng.randint(1, 2), rng.randint(2, 3), rng.randint(2, 3)])
        s = self.shape[a]
        depth, rows, cols = s[-3], s[-2], s[-1]
        fr, fc = rng.randint(1, min(2, rows)), rng.randint(1, min(2, cols))
        count = rng.randint(1, 2)
        f = self.new_leaf([count, depth, fr, fc])
        sr, sc_ = rng.randint(1, 2), rng.randint(1, 2)
        r = res or self.fresh()
        self.emit("conv %s %s %s %d %d" % (r, a, f, sr, sc_))
        self.shape[r] = s[:-3] + [count, (rows - fr) // sr + 1, (cols - fc) // sc_ + 1]
        self.tr[r] = self.tr[a] or self.tr[f]
        self.leaf.discard(r)
        self.note("conv", r, [a, f])
        return r

    def op_cop(self, kind=None, res=None, args=None):
        rng = self.rng
        kind = rng.choice([0, 1, 2, 3]) if kind is None else kind
        if args is None:
            a = self.pick()
            same = [n for n in self.names() if self.shape[n] == self.shape[a]]
            ar = {0: rng.randint(1, 3), 1: 2, 2: 1, 3: 3}[kind]
            args = [a] + [rng.choice(same) for _ in range(ar - 1)]
        r = res or self.fresh("c")
        self.emit("cop %d %s %s" % (kind, r, ",".join(args)))
        self.shape[r] = list(self.shape[args[0]])
        self.tr[r] = True
        self.leaf.discard(r)
        self.note("cop%d" % kind, r, args)
        return r

    def random_op(self, weights=None):
        rng = self.rng
        x = rng.random()
        if x < 0.5:
            return self.op_binary()
        if x < 0.8:
            return self.op_unary()
        if x < 0.88:
            return self.op_matmul() or self.op_binary()
        if x < 0.94:
            return self.op_conv()
        return self.op_cop()

    def seed_for(self, v):
        s = self.fresh("s")
        self.emit("new %s %s %s" % (s, dims_s(self.shape[v]), vals_s(seed_vals(self.rng, prod(self.shape[v]), self.mode), self.mode)))
        self.shape[s] = list(self.shape[v])
        self.tr[s] = False
        self.leaf.add(s)
        return s

    def backward(self, v, seeded=None):
        rng = self.rng
        if seeded is None:
            seeded = rng.random() < 0.6
        if seeded:
            s = self.seed_for(v)
            self.emit("backward %s %s" % (v, s))
        else:
            self.emit("backward %s -" % v)

    def read_all(self, probes=True):
        for n in self.names():
            self.emit("grad %s" % n)
            if probes and n not in self.tainted:
                self.emit("probe %s" % n)

    def drop(self, n):
        self.emit("drop %s" % n)
        self.shape.pop(n)
        self.tr.pop(n)
        self.leaf.discard(n)
        self.inter.discard(n)


def dag_key(p):
    return (tuple(p.topology), tuple(sorted((n, tuple(s)) for n, s in p.shape.items())), tuple(sorted(p.tr.items())))


def fam_dag(rng, n, tier, mode="exact"):
    """random expression DAGs, one pass, gradients of everything read back"""
    cases = []
    for i in range(n):
        p = Prog(rng, mode)
        for _ in range(rng.randint(1, 4)):
            p.new_leaf()
        last = None
        for _ in range(rng.randint(2, 14 if tier == "quick" else 22)):
            last = p.random_op()
            if rng.random() < 0.08 and last in p.shape:
                # data-dependent control flow
                p.emit("ifgt %s %s 1" % (last, sc(0, mode)))
                p.emit("scale %s %s %s" % (last, last, sc(2, mode)))
        roots = [x for x in p.names() if x in p.inter] or p.names()
        r = rng.choice(roots[-3:])
        p.backward(r)
        p.read_all()
        p.emit("snapshot")
        fan = max(p.maxfan.values()) if p.maxfan else 0
        cases.append(Case(p.L, ("dag", dag_key(p)), ["ops%d" % (len(p.topology) // 5 * 5), "fan%d" % min(fan, 4)] + sorted(set(p.ops_used)),
                          mode, nontrivial=(fan >= 2 and any(p.tr.values()))))
    # self-product chains: exponentially many paths, linear work
    for depth in ([5, 20, 45] if tier == "quick" else [3, 10, 30, 45, 60]):
        L = ["new x 2 %s" % vals_s([1, -1], mode), "tracked x", "clone y x"]
        for d in range(depth):
            L.append("cop 1 y y,y")
        L += ["backward y -", "grad x", "probe x", "log"]
        cases.append(Case(L, ("chain", depth), ["chain"], mode if mode == "exact" else mode))
    return cases


def fam_customlog(rng, n, tier, mode="exact"):
    """programs made of `Array::op` nodes with logging closures: invocation counts and received deltas"""
    cases = []
    # exhaustive small DAG shapes: each new node picks its operands among earlier ones
    maxn = 3 if tier == "quick" else 4
    for nn in range(1, maxn + 1):
        choices = []
        for i in range(nn):
            opts = [(0, (a, b)) for a in range(-1, i) for b in range(-1, i)] + [(2, (a,)) for a in range(-1, i)]
            choices.append(opts)
        allc = list(itertools.product(*choices))
        if len(allc) > 600:
            allc = rng.sample(allc, 600)
        for combo in allc:
            for flags in ([(True, True)] if tier == "quick" else [(True, True), (True, False)]):
                L = ["new l0 2 1,2", "new l1 2 3,-1"]
                if flags[0]:
                    L.append("tracked l0")
                if flags[1]:
                    L.append("tracked l1")
                names = []
                for i, (kind, args) in enumerate(combo):
                    an = [("l0" if (a == -1 and j % 2 == 0) else "l1") if a == -1 else names[a] for j, a in enumerate(args)]
                    nm = "c%d" % i
                    L.append("cop %d %s %s" % (kind, nm, ",".join(an)))
                    names.append(nm)
                L += ["backward %s -" % names[-1], "log", "grad l0", "grad l1"]
                for nm in names:
                    L.append("probe %s" % nm)
                cases.append(Case(L, ("cl", combo, flags), ["exhaustive", "n%d" % nn], mode,
                                  nontrivial=(nn >= 2)))
    # one node consumed very many times by a single operation: the count of pending consumers passes 2^8 and 2^16;
    # still one invocation, with the whole adjoint
    for fan in ([255, 256, 257, 65536, 65537] if tier == "quick" else [255, 256, 257, 65535, 65536, 65537, 131073]):
        L = ["new l0 2 1,2", "tracked l0", "cop 2 n l0", "cop 0 r %s" % ",".join(["n"] * fan), "backward r -", "log", "grad l0", "probe n",
             "backward r -", "log", "grad l0"]
        cases.append(Case(L, ("fanout", fan), ["fan-out", "fan>=2^%d" % (fan.bit_length() - 1)], mode))
        L = ["new l0 2 1,2", "tracked l0", "cop 2 n l0", "new w 2 3,5", "tracked w", "cop 0 r %s" % ",".join(["n"] * (fan - 1) + ["w", "n"]),
             "backward r -", "log", "grad l0", "grad w"]
        cases.append(Case(L, ("fanout-mixed", fan), ["fan-out"], mode))
    # a logging node with tracked consumers AND consumers built while it was temporarily not tracked
    # (those edges carry no delta and must not count as deliveries): every creation position of the
    # untracked consumers x orders in which the root lists its operands
    for nt in (1, 2, 3):
        for nu in (1, 2):
            kinds = ["t"] * nt + ["u"] * nu
            orders = sorted(set(itertools.permutations(kinds)))
            for order in orders:
                perms = list(itertools.permutations(range(nt + nu)))
                if len(perms) > (4 if tier == "quick" else 12):
                    perms = rng.sample(perms, 4 if tier == "quick" else 12)
                for perm in perms:
                    L = ["new l0 2 1,2", "tracked l0", "cop 2 n l0"]
                    cons = []
                    for i, k in enumerate(order):
                        L += ["new w%d 2 %d,%d" % (i, 10 ** (i + 1), 2 * 10 ** (i + 1)), "tracked w%d" % i]
                        if k == "u":
                            L += ["stop n", "cop 1 k%d n w%d" % (i, i), "start n"]
                        else:
                            L.append("cop 1 k%d n w%d" % (i, i))
                        cons.append("k%d" % i)
                    L.append("cop 0 r %s" % ",".join(cons[j] for j in perm))
                    L += ["backward r -", "log", "grad l0"] + ["grad w%d" % i for i in range(len(order))]
                    L += ["probe n"] + ["probe %s" % c for c in cons]
                    cases.append(Case(L, ("mixed", order, perm), ["mixed-tracking", "t%du%d" % (nt, nu)], mode))
    # handles of one logging node obtained in different ways - a clone taken while tracking was paused and
    # re-enabled afterwards, a clone of a clone, the original - all consumed in one graph: one node, one invocation
    for how in ("stop-clone-start", "clone-stop-start", "untracked-clone-tracked", "clone-of-clone"):
        for nuse in (2, 3):
            for kind in (1, 0):
                L = ["new l0 2 1,2", "tracked l0", "cop 2 n l0"]
                if how == "stop-clone-start":
                    L += ["stop n", "clone n2 n", "start n", "start n2"]
                elif how == "clone-stop-start":
                    L += ["clone n2 n", "stop n2", "start n2"]
                elif how == "untracked-clone-tracked":
                    L += ["untracked n", "clone n2 n", "tracked n", "tracked n2"]
                else:
                    L += ["clone n1 n", "clone n2 n1", "drop n1"]
                hs = ["n", "n2", "n"][:nuse]
                cons = []
                for i, h in enumerate(hs):
                    L += ["new w%d 2 %d,%d" % (i, 10 ** (i + 1), 2 * 10 ** (i + 1)), "tracked w%d" % i]
                    L.append("cop 1 k%d %s w%d" % (i, h, i) if kind == 1 else "cop 0 k%d %s,w%d" % (i, h, i))
                    cons.append("k%d" % i)
                L += ["cop 0 r %s" % ",".join(cons), "backward r -", "log", "grad l0", "probe n", "probe n2"]
                cases.append(Case(L, ("clonelog", how, nuse, kind), ["clone-handles", how], mode))
    for _ in range(n):
        p = Prog(rng, mode, maxsize=2, maxrank=2)
        s = rand_shape(rng, 2, 2)
        for _ in range(rng.randint(1, 3)):
            p.new_leaf(s)
        for _ in range(rng.randint(2, 30 if tier == "quick" else 40)):
            cops = [v for v in p.inter if v.startswith("c")]
            if cops and rng.random() < 0.2:
                v = rng.choice(sorted(cops))
                same = [m for m in p.names() if p.shape[m] == p.shape[v]]
                p.emit("stop %s" % v)
                kind = rng.choice([0, 1])
                args = [v, rng.choice(same)] if rng.random() < 0.5 else [rng.choice(same), v]
                p.op_cop(kind=kind, args=args)
                p.emit("start %s" % v)
                continue
            p.op_cop()
        r = p.pick(lambda x: x in p.inter)
        p.backward(r)
        p.emit("log")
        p.read_all()
        cases.append(Case(p.L, ("clr", dag_key(p)), ["random", "ops%d" % (len(p.topology) // 10 * 10)], mode))
    return cases


def fam_history(rng, n, tier, mode="exact", metamorphic=False):
    """graph construction interleaved with passes on any live node, gradient reads / clears / sets,
    clones, drops, re-binding; `snapshot` and probes after every pass"""
    cases = []
    for i in range(n):
        p = Prog(rng, mode)
        for _ in range(rng.randint(2, 4)):
            p.new_leaf()
        steps = rng.randint(8, 30 if tier == "quick" else 45)
        passes = 0
        for _ in range(steps):
            x = rng.random()
            if x < 0.45:
                p.random_op()
            elif x < 0.62 and p.inter:
                v = rng.choice(sorted(p.inter & set(p.shape)) or p.names())
                p.backward(v)
                passes += 1
                p.read_all()
                p.emit("snapshot")
            elif x < 0.68:
                v = p.pick()
                p.emit("cleargrad %s" % v)
            elif x < 0.72:
                v = p.pick()
                w = p.fresh("g")
                p.emit("new %s %s %s" % (w, dims_s(p.shape[v]), vals_s(gen_vals(rng, prod(p.shape[v]), mode), mode)))
                p.shape[w] = list(p.shape[v]); p.tr[w] = False; p.leaf.add(w)
                p.emit("setgrad %s %s" % (v, w))
            elif x < 0.80:
                v = p.pick()
                w = p.fresh("k")
                p.emit("clone %s %s" % (w, v))
                p.shape[w] = list(p.shape[v]); p.tr[w] = p.tr[v]
                p.alias[w] = p.node(v)
                if v in p.tainted:
                    p.tainted.add(w)
                if v in p.leaf:
                    p.leaf.add(w)
                if v in p.inter:
                    p.inter.add(w)
            elif x < 0.86 and len(p.shape) > 3:
                p.drop(p.pick())
            elif x < 0.90:
                v = p.pick()
                op = rng.choice(["start", "stop"])
                p.emit("%s %s" % (op, v))
                p.tr[v] = (op == "start")
            elif x < 0.93:
                v = p.pick()
                op = rng.choice(["tracked", "untracked"])
                p.emit("%s %s" % (op, v))
                p.tr[v] = (op == "tracked")
            elif x < 0.96 and p.inter:
                # re-bind a variable to a new result (c = &c + &x)
                v = rng.choice(sorted(p.inter & set(p.shape)) or p.names())
                b = p.pick_compat(v)
                if compat(p.shape[v], p.shape[b]) == p.shape[v] or True:
                    p.op_binary(op=rng.choice(["add", "mul"]), a=v, b=b, res=v)
            else:
                v = p.pick()
                if not p.may_fetch(v):
                    continue
                w = p.fresh("t")
                p.emit("takegrad %s %s" % (w, v))
                # may panic (no gradient): the case then ends on both sides
                p.shape[w] = list(p.shape[v]); p.tr[w] = False; p.leaf.add(w)
                p.tainted.add(w)
        p.emit("snapshot")
        for v in p.names():
            if v not in p.tainted:
                p.emit("probe %s" % v)
        cases.append(Case(p.L, ("hist", i, dag_key(p)), ["passes%d" % min(passes, 4)] + sorted(set(p.ops_used))[:6], mode,
                          nontrivial=(passes >= 1)))
    return cases


def fam_release(rng, n, tier, mode="exact"):
    """C18: build, differentiate, drop every derived result, then every leaf must own its buffer"""
    cases = []
    # systematic part: every operation once, tracked or not, differentiated or not; after the result is
    # dropped each operand must be the sole owner of its buffer again (no closure, cache or cell keeps it)
    fl = mode != "exact"
    singles = [("add", ["add r a b"], {"a": [2, 2], "b": [2]}), ("sub", ["sub r a b"], {"a": [2, 2], "b": [2, 2]}),
               ("mul", ["mul r a b"], {"a": [2, 2], "b": [1, 2]}), ("neg", ["neg r a"], {"a": [3]}),
               ("scale", ["scale r a %s" % sc(2, mode)], {"a": [3]}), ("powf", ["powf r a %s" % sc(2, mode)], {"a": [3]}),
               ("relu", ["relu r a"], {"a": [2, 2]}), ("sum", ["sum r a 1"], {"a": [2, 3]}), ("sum2", ["sum r a 2"], {"a": [2, 3]}),
               ("reshape", ["reshape r a 3,2"], {"a": [2, 3]}),
               ("matmul", ["matmul r a N b T -"], {"a": [2, 3], "b": [2, 3]}),
               ("matmulc", ["matmul r a N b N c"], {"a": [2, 3], "b": [3, 2], "c": [2]}),
               ("matmulb", ["matmul r a T b N -"], {"a": [2, 3, 2], "b": [3, 2]}),
               ("conv", ["conv r a b 1 1"], {"a": [1, 3, 3], "b": [2, 1, 2, 2]}),
               ("convb", ["conv r a b 2 1"], {"a": [2, 2, 3, 4], "b": [1, 2, 2, 2]}),
               ("axpy", ["axpy r %s a b" % sc(2, mode)], {"a": [2, 2], "b": [2, 2]}),
               ("chain", ["mul t a b", "add r t a"], {"a": [2], "b": [2]})]
    if fl:
        singles += [("div", ["div r a b"], {"a": [2, 2], "b": [2]}), ("exp", ["exp r a"], {"a": [3]}), ("ln", ["ln r a"], {"a": [3]}),
                    ("recip", ["recip r a"], {"a": [3]}), ("sigmoid", ["sigmoid r a"], {"a": [3]}), ("softmax", ["softmax r a"], {"a": [2, 3]})]
    for (name, lines, leaves) in singles:
        for tracked in (True, False):
            for bw in ((True, False) if tracked else (False,)):
                L = []
                for nm, d in sorted(leaves.items()):
                    L.append("new %s %s %s" % (nm, dims_s(d), vals_s(gen_vals(rng, prod(d), mode, "pos" if fl else "any"), mode)))
                    if tracked:
                        L.append("tracked %s" % nm)
                L += lines
                if bw:
                    L.append("backward r -")
                if "t" in " ".join(lines).split():
                    L.append("drop t")
                L.append("drop r")
                for nm in sorted(leaves):
                    L += ["probe %s" % nm, "own %s" % nm]
                cases.append(Case(L, ("rel1", name, tracked, bw), ["release", "single", name], mode))
    # the optimizer replaces parameters by fresh arrays: a handle kept on an old parameter is its only owner afterwards
    for npar in (1, 2, 3):
        for src in ("setgrad", "pass"):
            L = []
            names_ = ["p%d" % i for i in range(npar)]
            for nm in names_:
                L += ["new %s 2 %s" % (nm, vals_s(gen_vals(rng, 2, mode), mode)), "tracked %s" % nm]
            if src == "setgrad":
                for nm in names_:
                    L += ["new g%s 2 %s" % (nm, vals_s(gen_vals(rng, 2, mode), mode)), "setgrad %s g%s" % (nm, nm)]
            else:
                L.append("mul acc p0 p0")
                for nm in names_[1:]:
                    L += ["mul t%s %s %s" % (nm, nm, nm), "add acc acc t%s" % nm, "drop t%s" % nm]
                L += ["backward acc -", "drop acc"]
            for nm in names_:
                L.append("move old%s %s" % (nm, nm))      # the caller keeps the old parameter under another name
                L.append("clone %s old%s" % (nm, nm))
            lr = sc(Fraction(1, 2) if mode == "exact" else 0.25, mode)
            L.append("gdupdate %s %s" % (lr, ",".join(names_)))
            for nm in names_:
                L += ["probe old%s" % nm, "own old%s" % nm]
            # a later pass on the new parameters leaves nothing on (and needs nothing of) the old ones
            L += ["mul again p0 p0", "backward again -", "drop again", "probe p0"]
            cases.append(Case(L, ("relparam", npar, src), ["release", "optimizer", "params%d" % npar], mode))
    # layers hold their parameters, nothing else: the input is released once the outputs are dropped
    for lay in (["dense L0 2 2 none %s %s" % (vals_s([1, 2, 3, 4], mode), vals_s([1, 1], mode))],
                ["convl L0 1 1 2 2 1 1 none %s %s" % (vals_s([1, 2, 3, 4], mode), vals_s([1], mode))]):
        xd = [2, 2] if lay[0].startswith("dense") else [1, 3, 3]
        for bw in (False, True):
            L = list(lay) + ["new x %s %s" % (dims_s(xd), vals_s(gen_vals(rng, prod(xd), mode), mode)), "lfwd h L0 x"]
            if bw:
                L.append("backward h -")
            L += ["drop h", "probe x", "own x", "params L0"]
            cases.append(Case(L, ("rellayer", lay[0].split(" ")[0], bw), ["release", "layer"], mode))
    # a model moves on: once it has been run on the next input and the caller has dropped the earlier results,
    # the earlier input is owned by the caller alone - whatever was tracked (inputs, parameters) in either run
    for freeze in ("none", "all", "weights", "bias"):
        for (t0, t1) in ((1, 0), (0, 1), (1, 1), (0, 0)):
            for bw in (False, True):
                L = ["dense L0 2 2 none %s %s" % (vals_s([1, 2, 3, 4], mode), vals_s([1, 1], mode)),
                     "dense L1 2 2 none %s %s" % (vals_s([1, -1, 2, 1], mode), vals_s([0, 1], mode))]
                if freeze != "none":
                    wh = {"all": 2, "weights": 0, "bias": 1}[freeze]
                    L += ["lflag L0 %d 0" % wh, "lflag L1 %d 0" % wh]
                L.append("model M mse %s L0,L1" % sc(Fraction(1, 2) if mode == "exact" else 0.5, mode))
                for it, trk in enumerate((t0, t1)):
                    L.append("new x%d 2,2 %s" % (it, vals_s(gen_vals(rng, 4, mode), mode)))
                    if trk:
                        L.append("tracked x%d" % it)
                    L.append("fwd o%d M x%d" % (it, it))
                    if bw and (trk or freeze != "all"):
                        L += ["new y%d 2,2 %s" % (it, vals_s(gen_vals(rng, 4, mode), mode)), "bwd M y%d" % it, "update M"]
                    if it == 1:
                        L += ["drop o0", "probe x0", "cleargrad x0", "own x0"]
                L += ["drop o1", "probe x1"]
                cases.append(Case(L, ("relmodel", freeze, t0, t1, bw), ["release", "model", "freeze-" + freeze], mode))
    for i in range(n):
        p = Prog(rng, mode)
        leaves = [p.new_leaf() for _ in range(rng.randint(1, 3))]
        for _ in range(rng.randint(1, 12)):
            x = rng.random()
            if x < 0.85:
                p.random_op()
            elif p.inter:
                p.backward(rng.choice(sorted(p.inter & set(p.shape))))
        if rng.random() < 0.7 and p.inter:
            p.backward(rng.choice(sorted(p.inter & set(p.shape))))
        # leaves created along the way by the generator are leaves as well
        derived = [x for x in p.names() if x not in p.leaf]
        rng.shuffle(derived)
        for v in derived:
            p.emit("probe %s" % v)
            p.drop(v)
        for v in sorted(p.leaf & set(p.shape)):
            p.emit("probe %s" % v)
        for v in sorted(p.leaf & set(p.shape)):
            p.emit("grad %s" % v)
            p.emit("own %s" % v)
        cases.append(Case(p.L, ("rel", i, dag_key(p)), ["release"] + sorted(set(p.ops_used))[:5], mode))
    return cases


def fam_optim(rng, n, tier, mode="exact", frompass=True):
    """C13: parameter lists of random shapes, every frozen subset (small lists), repeated updates"""
    cases = []
    combos = []
    for k in range(1, 5):
        for mask in itertools.product([0, 1], repeat=k):
            combos.append((k, mask))
    for _ in range(n):
        combos.append((rng.randint(1, 6), None))
    for (k, mask) in combos:
        L = []
        shapes = [rand_shape(rng, 3, 3) for _ in range(k)]
        mask = mask or tuple(rng.randint(0, 1) for _ in range(k))
        names = ["p%d" % i for i in range(k)]
        for nm, s in zip(names, shapes):
            L.append("new %s %s %s" % (nm, dims_s(s), vals_s(gen_vals(rng, prod(s), mode), mode)))
            L.append("tracked %s" % nm)
        reuse = False
        for rep in range(rng.randint(1, 3)):
            for nm, s, m in zip(names, shapes, mask):
                if m or (rep > 0 and rng.random() < 0.5):
                    g = "g_%s_%d" % (nm, rep)
                    L.append("new %s %s %s" % (g, dims_s(s), vals_s(gen_vals(rng, prod(s), mode), mode)))
                    L.append("setgrad %s %s" % (nm, g))
            L.append("clone old %s" % names[0])
            lr = rng.choice([1, 2, Fraction(1, 2), Fraction(1, 4), -1, 0]) if mode == "exact" else rng.choice([rng.uniform(0.001, 1.0), rng.uniform(0.001, 1.0), 0.0])
            if rep == 0:
                reuse = rng.random() < 0.6
                if reuse:
                    L.append("gd G %s" % sc(lr, mode))
            if reuse:
                L.append("gdstep G %s" % ",".join(names))       # the same optimizer object, update after update
            else:
                L.append("gdupdate %s %s" % (sc(lr, mode), ",".join(names)))
            L.append("show old")
            L.append("snapshot")
            for nm in names:
                L.append("probe %s" % nm)
        cases.append(Case(L, ("opt", k, mask, tuple(map(tuple, shapes))), ["k%d" % k, "frozen%d" % (k - sum(mask))], mode,
                          nontrivial=(k >= 2 and 0 < sum(mask))))
    # one optimizer object stepping different parameter lists of the same sizes in turn (it keeps nothing
    # about the parameters it has seen)
    for k in (1, 2, 3):
        for sameshape in (True, False):
            L = []
            shapes = [rand_shape(rng, 2, 3) for _ in range(k)]
            lr = Fraction(1, 2) if mode == "exact" else 0.25
            L.append("gd G %s" % sc(lr, mode))
            for rnd in range(3):
                for which in ("p", "q"):
                    names = ["%s%d" % (which, i) for i in range(k)]
                    for nm, sh in zip(names, shapes):
                        sh2 = sh if (sameshape or which == "p") else [prod(sh)]
                        if rnd == 0:
                            L.append("new %s %s %s" % (nm, dims_s(sh2), vals_s(gen_vals(rng, prod(sh2), mode), mode)))
                            L.append("tracked %s" % nm)
                        L.append("new g%s%d %s %s" % (nm, rnd, dims_s(sh2), vals_s(gen_vals(rng, prod(sh2), mode), mode)))
                        L.append("setgrad %s g%s%d" % (nm, nm, rnd))
                    L.append("gdstep G %s" % ",".join(names))
                    L.append("snapshot")
            cases.append(Case(L, ("optshared", k, sameshape, tuple(map(tuple, shapes))), ["shared-optimizer"], mode))
    # a learning rate of zero is a step like any other: gradients taken, fresh tracked leaves, values unchanged
    for k in (1, 2):
        L = []
        names = ["p%d" % i for i in range(k)]
        for nm in names:
            L += ["new %s 2 %s" % (nm, vals_s(gen_vals(rng, 2, mode), mode)), "tracked %s" % nm,
                  "new g%s 2 %s" % (nm, vals_s(gen_vals(rng, 2, mode), mode)), "setgrad %s g%s" % (nm, nm)]
        L += ["clone old p0", "gdupdate %s %s" % (sc(0, mode), ",".join(names)), "snapshot"] + ["probe %s" % nm for nm in names] + ["grad old", "probe old"]
        L += ["gd G %s" % sc(0, mode)] + ["setgrad %s g%s" % (nm, nm) for nm in names] + ["gdstep G %s" % ",".join(names), "snapshot"]
        cases.append(Case(L, ("optzero", k), ["lr-zero"], mode))
    # the tracking state a parameter is in when the step runs: tracked, tracking paused after a pass (the
    # documented evaluation idiom), switched off, never switched on (gradient deposited directly) - the stepped
    # parameter is a tracked leaf without gradient whatever it was, and takes part in the next pass
    states = ("tracked", "stopped", "untracked", "never", "stopped-after-pass")
    st_combos = [(st,) for st in states] + list(itertools.product(states, repeat=2)) + [tuple(rng.choice(states) for _ in range(3)) for _ in range(6)]
    for sts in st_combos:
        L = []
        names = ["p%d" % i for i in range(len(sts))]
        for nm, st in zip(names, sts):
            sh = rand_shape(rng, 2, 3)
            L.append("new %s %s %s" % (nm, dims_s(sh), vals_s(gen_vals(rng, prod(sh), mode), mode)))
            gl = ["new g%s %s %s" % (nm, dims_s(sh), vals_s(gen_vals(rng, prod(sh), mode), mode)), "setgrad %s g%s" % (nm, nm)]
            if st == "tracked":
                L += ["tracked %s" % nm] + gl
            elif st == "stopped":
                L += ["tracked %s" % nm] + gl + ["stop %s" % nm]
            elif st == "untracked":
                L += ["tracked %s" % nm] + gl + ["untracked %s" % nm]
            elif st == "never":
                L += gl
            else:
                L += ["tracked %s" % nm, "new c%s %s %s" % (nm, dims_s(sh), vals_s(gen_vals(rng, prod(sh), mode), mode)),
                      "mul r%s %s c%s" % (nm, nm, nm), "backward r%s -" % nm, "stop %s" % nm, "mul e%s %s c%s" % (nm, nm, nm), "show e%s" % nm]
            L.append("probe %s" % nm)
        lr = sc(Fraction(1, 2) if mode == "exact" else 0.25, mode)
        L += ["gdupdate %s %s" % (lr, ",".join(names)), "snapshot"] + ["probe %s" % nm for nm in names]
        for nm in names:          # the next pass reaches the stepped parameter
            L += ["scale s%s %s %s" % (nm, nm, sc(3, mode)), "backward s%s -" % nm, "grad %s" % nm, "probe %s" % nm]
        L += ["gdupdate %s %s" % (lr, ",".join(names)), "snapshot"] + ["probe %s" % nm for nm in names]
        cases.append(Case(L, ("optflags", sts), ["flag-state"] + sorted(set("state-" + st for st in sts)), mode))
    # long parameter lists / long parameters: the flat gather / step / scatter at totals from 2^10 to beyond 2^17
    for sizes in ([600, 500], [5000, 3, 4000], [40000, 30000, 7], [70000, 65000, 5], [3, 131072, 2], [50000, 50000, 50000]):
        L = []
        names = ["p%d" % i for i in range(len(sizes))]
        for nm, sz in zip(names, sizes):
            L.append("new %s %d %s" % (nm, sz, vals_s([rng.randint(-4, 4) for _ in range(sz)], mode)))
            L.append("tracked %s" % nm)
        for rep in range(2):
            for nm, sz in zip(names, sizes):
                if rep == 0 or rng.random() < 0.6:
                    L.append("new g%s%d %d %s" % (nm, rep, sz, vals_s([rng.randint(-4, 4) for _ in range(sz)], mode)))
                    L.append("setgrad %s g%s%d" % (nm, nm, rep))
            L.append("gdupdate %s %s" % (sc(Fraction(1, 2) if mode == "exact" else 0.5, mode), ",".join(names)))
            L.append("snapshot")
        cases.append(Case(L, ("optlong", tuple(sizes)), ["long-parameters", "total>=2^%d" % (sum(sizes).bit_length() - 1)], mode))
    # gradients that come from real passes
    for _ in range(n // 2 if frompass else 0):
        p = Prog(rng, mode)
        params = [p.new_leaf(tracked=True) for _ in range(rng.randint(1, 4))]
        for _ in range(rng.randint(1, 8)):
            p.random_op()
        if p.inter:
            p.backward(rng.choice(sorted(p.inter & set(p.shape))))
        lr = rng.choice([1, 2, Fraction(1, 2)]) if mode == "exact" else rng.uniform(0.001, 1.0)
        p.emit("gdupdate %s %s" % (sc(lr, mode), ",".join(params)))
        p.emit("snapshot")
        cases.append(Case(p.L, ("optp", dag_key(p)), ["frompass"], mode))
    return cases


ACTS_EXACT = ["none", "relu"]
ACTS_FLOAT = ["none", "relu", "sigmoid", "softmax"]


def fam_train(rng, n, tier, mode="exact", forward_only=False):
    """C14 / C15 / C18: stacks of dense / conv layers, both costs, batches, several iterations"""
    cases = []
    if not forward_only:
        # inputs that are themselves tracked results: the model applied to its own output (the parameters are
        # reached through both applications), to a scaled tracked leaf, to the output of another model
        for variant in ("self", "computed", "other-model", "self-twice"):
            for act in (["none", "relu"] if mode == "exact" else ["none", "sigmoid"]):
                w = [1, -1, 2, 1] if mode == "exact" else [0.5, -0.25, 0.75, 0.5]
                b = [1, 0] if mode == "exact" else [0.1, -0.2]
                L = ["dense L0 2 2 %s %s %s" % (act, vals_s(w, mode), vals_s(b, mode)),
                     "model M mse %s L0" % sc(Fraction(1, 4) if mode == "exact" else 0.25, mode)]
                if variant == "other-model":
                    L += ["dense K0 2 2 none %s %s" % (vals_s([2, 0, 1, 1] if mode == "exact" else [0.3, 0.1, -0.2, 0.4], mode), vals_s(b, mode)),
                          "model N mse %s K0" % sc(Fraction(1, 2) if mode == "exact" else 0.5, mode)]
                for it in range(2):
                    xv = [1, 2, -1, 1] if it == 0 else [0, 1, 2, -2]
                    L.append("new x%d 2,2 %s" % (it, vals_s(xv if mode == "exact" else [v / 2 for v in xv], mode)))
                    if variant in ("self", "self-twice"):
                        L += ["fwd h%d M x%d" % (it, it), "fwd o%d M h%d" % (it, it)]
                        if variant == "self-twice":
                            L.append("fwd o%d M o%d" % (it, it))
                    elif variant == "computed":
                        L += ["tracked x%d" % it, "scale xs%d x%d %s" % (it, it, sc(2, mode)), "fwd o%d M xs%d" % (it, it)]
                    else:
                        L += ["fwd h%d N x%d" % (it, it), "fwd o%d M h%d" % (it, it)]
                    L += ["new y%d 2,2 %s" % (it, vals_s([1, 0, 0, 1] if mode == "exact" else [1.0, 0.0, 0.0, 1.0], mode)), "bwd M y%d" % it, "params M"]
                    if variant == "computed":
                        L.append("grad x%d" % it)
                    if variant == "other-model":
                        L += ["params N", "update N", "params N"]
                    L += ["update M", "params M"]
                cases.append(Case(L, ("trainfeed", variant, act), ["tracked-result-input", variant], mode))
    for i in range(n):
        L = []
        kind = rng.choice(["dense", "dense", "conv"])
        acts = ACTS_EXACT if mode == "exact" else ACTS_FLOAT
        layers = []
        tags = [kind]
        if kind == "dense":
            nl = rng.randint(1, 3)
            sizes = [rng.randint(1, 3) for _ in range(nl + 1)]
            if mode == "exact":
                sizes[-1] = rng.choice([1, 2, 4])
            for j in range(nl):
                act = rng.choice(acts) if j < nl - 1 or mode != "exact" else rng.choice(acts)
                if act == "softmax" and sizes[j + 1] == 1:
                    act = "sigmoid"
                w = gen_vals(rng, sizes[j] * sizes[j + 1], mode) if mode == "exact" else floats(rng, sizes[j] * sizes[j + 1], -1, 1)
                b = gen_vals(rng, sizes[j + 1], mode) if mode == "exact" else floats(rng, sizes[j + 1], -1, 1)
                if mode == "exact":
                    w = [max(-2, min(2, v)) for v in w]
                L.append("dense L%d %d %d %s %s %s" % (j, sizes[j], sizes[j + 1], act, vals_s(w, mode), vals_s(b, mode)))
                layers.append("L%d" % j)
                tags.append(act)
            batch = rng.choice([None, 1, 2, 4]) if mode == "exact" else rng.choice([None, 1, 2, 3])
            xdims = [sizes[0]] if batch is None else [batch, sizes[0]]
            ydims = [1, sizes[-1]] if batch is None else [batch, sizes[-1]]
        else:
            depth = rng.randint(1, 2)
            rows, cols = rng.randint(2, 4), rng.randint(2, 4)
            count = rng.choice([1, 2])
            fr, fc = rng.randint(1, min(rows, 2)), rng.randint(1, min(cols, 2))
            sr, sc_ = rng.randint(1, 2), rng.randint(1, 2)
            act = rng.choice([a for a in acts if a != "softmax"])
            w = gen_vals(rng, count * depth * fr * fc, mode) if mode == "exact" else floats(rng, count * depth * fr * fc, -1, 1)
            b = gen_vals(rng, count, mode) if mode == "exact" else floats(rng, count, -1, 1)
            if mode == "exact":
                w = [max(-2, min(2, v)) for v in w]
            L.append("convl L0 %d %d %d %d %d %d %s %s %s" % (count, depth, fr, fc, sr, sc_, act, vals_s(w, mode), vals_s(b, mode)))
            layers.append("L0")
            tags.append(act)
            orows, ocols = (rows - fr) // sr + 1, (cols - fc) // sc_ + 1
            batch = rng.choice([None, 1, 2])
            xdims = ([] if batch is None else [batch]) + [depth, rows, cols]
            ydims = ([] if batch is None else [batch]) + [count, orows, ocols]
        cost = "mse" if mode == "exact" else rng.choice(["mse", "xent"])
        if cost == "xent" and tags[-1] not in ("sigmoid", "softmax"):
            cost = "mse"
        # the exact channel needs 1/len(output) to be dyadic
        if mode == "exact" and (prod(ydims) & (prod(ydims) - 1)):
            continue
        lr = rng.choice([1, Fraction(1, 2), Fraction(1, 4)]) if mode == "exact" else rng.uniform(0.01, 0.5)
        if forward_only:
            L.append("new x %s %s" % (dims_s(xdims), vals_s(gen_vals(rng, prod(xdims), mode) if mode == "exact" else floats(rng, prod(xdims), -1, 1), mode)))
            cur = "x"
            for j, lay in enumerate(layers):
                L.append("lfwd h%d %s %s" % (j, lay, cur))
                cur = "h%d" % j
            L.append("params L0")
            cases.append(Case(L, ("fwd", i, tuple(L)), tags + ["forward"], mode))
            continue
        fr_ = rng.random()
        if fr_ < 0.12:
            # a frozen model: every parameter stopped before the model is built (a fixed feature map)
            for lay in layers:
                L.append("lflag %s 2 0" % lay)
            tags.append("frozen-model")
        elif fr_ < 0.3:
            # some parameters frozen (weights or bias of one layer), possibly started again
            lay = rng.choice(layers)
            L.append("lflag %s %d 0" % (lay, rng.choice([0, 1, 2])))
            if rng.random() < 0.3:
                L.append("lflag %s %d 1" % (lay, rng.choice([0, 1, 2])))
            tags.append("partly-frozen")
        L.append("model M %s %s %s" % (cost, sc(lr, mode), ",".join(layers)))
        iters = rng.randint(1, 3 if tier == "quick" else 5)
        base_x, base_y = list(xdims), list(ydims)
        for it in range(iters):
            # the batch size may change from one iteration to the next (a short last batch, unbatched input):
            # every iteration's loss and step are those of the current batch
            xdims, ydims = list(base_x), list(base_y)
            if it > 0 and rng.random() < 0.6:
                if kind == "dense":
                    nb = rng.choice([None, 1, 2, 4]) if mode == "exact" else rng.choice([None, 1, 2, 3])
                    xdims = [sizes[0]] if nb is None else [nb, sizes[0]]
                    ydims = [1, sizes[-1]] if nb is None else [nb, sizes[-1]]
                else:
                    nb = rng.choice([None, 1, 2])
                    xdims = ([] if nb is None else [nb]) + base_x[-3:]
                    ydims = ([] if nb is None else [nb]) + base_y[-3:]
                if mode == "exact" and (prod(ydims) & (prod(ydims) - 1)):
                    xdims, ydims = list(base_x), list(base_y)
            tdims = list(ydims)
            if kind == "dense" and it > 0 and rng.random() < 0.3 and not (mode == "exact" and (sizes[-1] & (sizes[-1] - 1))):
                # one input row scored against several target rows: the cost array (and so the seed of the pass)
                # has the target's shape, not the output's, although the output's shape is the one seen before
                xdims, ydims = [1, sizes[0]], [1, sizes[-1]]
                tdims = [rng.choice([2, 4]), sizes[-1]]
            xv = gen_vals(rng, prod(xdims), mode) if mode == "exact" else floats(rng, prod(xdims), -1, 1)
            if mode == "exact":
                xv = [max(-2, min(2, v)) for v in xv]
            L.append("new x%d %s %s" % (it, dims_s(xdims), vals_s(xv, mode)))
            yv = gen_vals(rng, prod(tdims), mode) if mode == "exact" else posfloats(rng, prod(tdims), 0.0, 1.0)
            L.append("new y%d %s %s" % (it, dims_s(tdims), vals_s(yv, mode)))
            xtracked = rng.random() < 0.35
            if xtracked:
                # the input batch may itself be tracked (a leaf, or the output of another model)
                L.append("tracked x%d" % it)
            if it == 0 and rng.random() < 0.3:
                # a step before anything was differentiated: nothing holds a gradient, nothing may change -
                # and nothing may be remembered about it
                L.append("update M")
                L.append("params M")
            L.append("fwd out%d M x%d" % (it, it))
            if xtracked:
                L.append("flags x%d" % it)
            xr = rng.random()
            if xr < 0.12:
                # a target equal to the current output, element for element (soft labels copied from the
                # prediction): mse is then 0 with zero gradients, cross-entropy is not
                L.append("bwd M out%d" % it)
            elif xr < 0.30:
                # the caller differentiates its own loss on the model's output (Array::backward, not
                # Model::backward) and then asks the model to step: the gradients are on the parameters all the same
                L += ["sub hd%d out%d y%d" % (it, it, it), "mul hl%d hd%d hd%d" % (it, it, it), "backward hl%d -" % it]
            else:
                L.append("bwd M y%d" % it)
            L.append("params M")
            if xtracked:
                L += ["grad x%d" % it, "flags x%d" % it]
            L.append("update M")
            L.append("params M")
            if rng.random() < 0.15:
                L.append("update M")          # a second update without a new pass: gradients were taken
                L.append("params M")
            if it > 0 and rng.random() < 0.5:
                # everything of the previous iteration has been released
                L.append("drop out%d" % (it - 1))
                L.append("probe x%d" % (it - 1))
                L.append("own x%d" % (it - 1))
        cases.append(Case(L, ("train", i, tuple(L[:3])), tags + [cost, "it%d" % iters, "batch%s" % batch], mode,
                          nontrivial=(iters >= 2)))
    return cases


FAMILIES.update({"dag": fam_dag, "customlog": fam_customlog, "history": fam_history, "release": fam_release,
                 "optim": fam_optim, "train": fam_train})


# ---------------------------------------------------------------- metamorphic families

def rename_lines(lines, names, prefix):
    out = []
    for l in lines:
        toks = l.split(" ")
        new = []
        for t in toks:
            parts = t.split(",")
            new.append(",".join((prefix + x) if x in names else x for x in parts))
        out.append(" ".join(new))
    return out


OPS_WITH_ARGS = {"conv": (2, 3), "add": (2, 3), "sub": (2, 3), "mul": (2, 3), "div": (2, 3), "neg": (2,), "scale": (2,), "powf": (2,),
                 "relu": (2,), "sigmoid": (2,), "exp": (2,), "softmax": (2,), "sum": (2,), "reshape": (2,),
                 "matmul": (2, 4, 6)}


def build_program(rng, mode, nops, allow_cop=True, flagops=False):
    p = Prog(rng, mode)
    for _ in range(rng.randint(2, 3)):
        p.new_leaf()
    for _ in range(nops):
        if flagops and rng.random() < 0.25:
            v = p.pick()
            op = rng.choice(["stop", "start", "untracked", "tracked", "stop"])
            p.emit("%s %s" % (op, v))
            p.tr[v] = op in ("start", "tracked")
        x = rng.random()
        if x < 0.55:
            p.op_binary()
        elif x < 0.85:
            p.op_unary()
        elif x < 0.93 or not allow_cop:
            p.op_matmul() or p.op_binary()
        else:
            p.op_cop()
    return p


def flagged_leaf(L, nm, dims, how, rng, mode):
    L.append("new %s %s %s" % (nm, dims_s(dims), vals_s(gen_vals(rng, prod(dims), mode, "pos"), mode)))
    L += {"plain": [], "tracked": ["tracked %s" % nm], "start": ["start %s" % nm],
          "tracked-stop": ["tracked %s" % nm, "stop %s" % nm], "untracked": ["untracked %s" % nm],
          "untracked-start": ["tracked %s" % nm, "untracked %s" % nm, "start %s" % nm]}[how]


def fam_transparent(rng, n, tier, mode="exact"):
    """C12: a program and an edited twin (operands replaced by clones, handles dropped after their last
    use, variables re-bound, the pass started from a clone); all observable results must coincide"""
    cases = []
    # systematic part: a clone of a handle in every flag state behaves like the handle, in every operation
    hows = ["plain", "tracked", "start", "tracked-stop", "untracked", "untracked-start"]
    ops = [("mul", "mul r a b"), ("add", "add r b a"), ("neg", "neg r a"), ("scale", "scale r a %s" % sc(2, mode)),
           ("reshape", "reshape r a 4"), ("sum", "sum r a 1"), ("matmul", "matmul r a N b T -"), ("matmulc", "matmul r b N b T a1"),
           ("powf", "powf r a %s" % sc(2, mode)), ("relu", "relu r a")]
    for how in hows:
        for hb in ("plain", "tracked"):
            for (opn, line) in ops:
                base = []
                flagged_leaf(base, "a", [2, 2], how, rng, mode)
                flagged_leaf(base, "b", [2, 2], hb, rng, mode)
                flagged_leaf(base, "a1", [2], how, rng, mode)
                L = list(base) + [line, "mul s r r", "backward s -"]
                L += rename_lines(base, {"a", "b", "a1"}, "z") + ["clone zqa za", "clone zqa1 za1"]
                toks = [("zqa" if t == "a" else "zqa1" if t == "a1" else "z" + t if t in ("b", "r") else t) for t in line.split(" ")]
                L += [" ".join(toks), "mul zs zr zr", "backward zs -"]
                for v in ("a", "b", "a1", "r", "s"):
                    L += ["same %s z%s" % (v, v), "samegrad %s z%s" % (v, v)]
                cases.append(Case(L, ("trsys", how, hb, opn), ["systematic", "clone", how], mode, nontrivial=(how != "plain")))
    for how in ("untracked", "tracked", "stop", "start", "drop", "clone-only"):
        for leafhow in ("tracked", "start"):
            L = ["new a 3 %s" % vals_s(gen_vals(rng, 3, mode), mode), "%s a" % leafhow, "mul r a a", "backward r -", "grad a",
                 "clone c a"]
            if how == "drop":
                L.append("drop c")
            elif how != "clone-only":
                L.append("%s c" % how)
            L += ["grad a", "flags a", "mul r2 a a", "backward r2 -", "grad a"]
            if how not in ("drop",):
                L += ["grad c", "samegrad a c"]
            cases.append(Case(L, ("trflagclone", how, leafhow), ["systematic", "flag-on-clone", how], mode))
            # the same two passes without any clone: gradients must coincide with the program above
            v3 = vals_s(gen_vals(rng, 3, mode), mode)
            T = ["new a 3 %s" % v3, "%s a" % leafhow, "mul r a a", "backward r -", "clone c a"]
            if how == "drop":
                T.append("drop c")
            elif how != "clone-only":
                T.append("%s c" % how)
            T += ["mul r2 a a", "backward r2 -",
                  "new za 3 %s" % v3, "%s za" % leafhow, "mul zr za za", "backward zr -", "mul zr2 za za", "backward zr2 -",
                  "samegrad a za", "same r2 zr2"]
            cases.append(Case(T, ("trflagclone-twin", how, leafhow), ["systematic", "flag-on-clone", "twin", how], mode))
    # one handle on both sides of an operation, or a clone of it on one side: the same result
    for (fa, fb) in (("N", "T"), ("T", "N"), ("N", "N"), ("T", "T")):
        for cform in ("-", "bias", "full"):
            for trk in (False, True):
                L = ["new a 3,3 %s" % vals_s([1, 2, 3, -1, 0, 2, 4, 1, -2], mode)]
                if cform != "-":
                    cd = [3] if cform == "bias" else [3, 3]
                    L.append("new c %s %s" % (dims_s(cd), vals_s([i * i + 2 * i + 1 for i in range(prod(cd))], mode)))
                cn = "c" if cform != "-" else "-"
                if trk:
                    L.append("tracked a")
                L += ["matmul r a %s a %s %s" % (fa, fb, cn), "clone a2 a", "matmul r2 a %s a2 %s %s" % (fa, fb, cn), "same r r2",
                      "matmul r3 a2 %s a %s %s" % (fa, fb, cn), "same r r3", "clone a3 a", "matmul r4 a3 %s a2 %s %s" % (fa, fb, cn), "same r r4"]
                for op in ("mul", "add", "sub"):
                    L += ["%s e1 a a" % op, "%s e2 a a2" % op, "same e1 e2"]
                if trk:
                    L += ["backward r -", "grad a"]
                cases.append(Case(L, ("trsame", fa, fb, cform, trk), ["systematic", "same-handle-twice", "c=" + cform], mode))
    for i in range(n):
        p = build_program(rng, mode, rng.randint(2, 10 if tier == "quick" else 16), flagops=(rng.random() < 0.6))
        root = rng.choice(sorted(p.inter & set(p.shape)) or p.names())
        names = set(p.shape)
        base = list(p.L)
        seed_vals = vals_s(gen_vals(rng, prod(p.shape[root]), mode), mode)
        seeded = rng.random() < 0.6
        orig = base + (["new seed0 %s %s" % (dims_s(p.shape[root]), seed_vals), "backward %s seed0" % root] if seeded
                       else ["backward %s -" % root])
        # the twin: same text with renamed variables, then edited
        twin = rename_lines(base, names, "z")
        edited = []
        kinds = set()
        cl = 0
        last_use = {}
        for j, l in enumerate(twin):
            for t in l.replace(",", " ").split(" ")[1:]:
                last_use[t] = j
        live = set()
        dropped = set()
        for j, l in enumerate(twin):
            toks = l.split(" ")
            if toks[0] in OPS_WITH_ARGS and rng.random() < 0.5:
                pos = rng.choice(OPS_WITH_ARGS[toks[0]])
                if pos < len(toks) and toks[pos] in live:
                    cl += 1
                    c = "zq%d" % cl
                    edited.append("clone %s %s" % (c, toks[pos]))
                    toks[pos] = c
                    kinds.add("clone")
                    l = " ".join(toks)
                    if rng.random() < 0.5:
                        edited.append(l)
                        edited.append("drop %s" % c)
                        live.add(toks[1])
                        continue
            edited.append(l)
            if toks[0] not in ("tracked", "untracked", "start", "stop"):
                live.add(toks[1])
            # drop a handle once the program no longer names it
            for v in sorted(live - dropped):
                if last_use.get(v, -1) == j and v != "z" + root and v[1:] in p.inter and rng.random() < 0.5:
                    edited.append("drop %s" % v)
                    dropped.add(v)
                    kinds.add("drop")
        zr = "z" + root
        if rng.random() < 0.5:
            edited.append("move zmoved %s" % zr)
            edited.append("move %s zmoved" % zr)
            kinds.add("rebind")
        start = zr
        if rng.random() < 0.5:
            edited.append("clone zstart %s" % zr)
            start = "zstart"
            kinds.add("clonestart")
        edited += (["new zseed0 %s %s" % (dims_s(p.shape[root]), seed_vals), "backward %s zseed0" % start] if seeded
                   else ["backward %s -" % start])
        if rng.random() < 0.4:
            # a second pass on the same result: the twin keeps handles alive that the original never
            # creates (fetched gradients, the seed passed as a clone of a live handle); holding or
            # dropping a handle must not change what the second pass accumulates
            kinds.add("twopass")
            orig.append("backward %s seed0" % root if seeded else "backward %s -" % root)
            cand = [v for v in sorted(p.leaf & set(p.shape)) if p.tr.get(v) and p.maxfan.get(v)]
            rng.shuffle(cand)
            for k, v in enumerate(cand[:2]):
                if ("z" + v) not in dropped:
                    edited.append("takegrad zheld%d z%s" % (k, v))
                    kinds.add("heldgrad")
            if seeded and rng.random() < 0.5:
                edited.append("backwardc %s zseed0" % start)
                kinds.add("seedclone")
            else:
                edited.append("backward %s zseed0" % start if seeded else "backward %s -" % start)
        L = orig + edited
        for v in sorted(names):
            if ("z" + v) not in dropped:
                L.append("same %s z%s" % (v, v))
                L.append("samegrad %s z%s" % (v, v))
                L.append("grad %s" % v)
        # a gradient deposited through any clone is visible through every other clone
        lf = sorted(p.leaf & set(p.shape))
        if lf:
            v = rng.choice(lf)
            L += ["clone zz1 %s" % v, "clone zz2 zz1", "samegrad zz2 %s" % v]
            # re-flagging or dropping a clone does not touch what the others see: flags are per handle,
            # the gradient belongs to the array
            how = rng.choice(["untracked", "stop", "tracked", "start", "drop"])
            L += ["clone zz3 zz1", ("drop zz3" if how == "drop" else "%s zz3" % how), "grad %s" % v, "samegrad zz1 %s" % v, "samegrad zz2 %s" % v]
            L += ["drop %s" % v, "grad zz1", "samegrad zz1 zz2"]
        cases.append(Case(L, ("tr", i, tuple(sorted(kinds)), dag_key(p)), sorted(kinds) + ["seeded" if seeded else "ones"], mode,
                          nontrivial=bool(kinds)))
    return cases


def fam_linear(rng, n, tier, mode="exact"):
    """C17: three fresh instances of a program run with s1, s2 and alpha*s1 + beta*s2 (`lin` compares
    alpha*g(s1) + beta*g(s2) with g(alpha*s1 + beta*s2) cell by cell), and a fourth pair comparing an
    omitted seed with explicit ones"""
    out = []
    # roots without an operation of their own: a tracked leaf, the sum(0) alias of one, a reshaped view, a clone
    for rootkind in ("leaf", "sum0", "view", "clone", "started-leaf"):
        for dims in ([3], [2, 3]):
            cnt = prod(dims)
            s1, s2 = ints(rng, cnt, -3, 3), ints(rng, cnt, -3, 3)
            al, be = rng.choice([2, -1, 3]), rng.choice([1, -2])
            s3 = [al * x + be * y for x, y in zip(s1, s2)]
            L = []
            vals = vals_s(gen_vals(rng, cnt, mode), mode)
            for pre, sv in (("a_", s1), ("b_", s2), ("c_", s3)):
                L += ["new %sw %s %s" % (pre, dims_s(dims), vals), ("start %sw" if rootkind == "started-leaf" else "tracked %sw") % pre]
                if rootkind == "sum0":
                    L.append("sum %sr %sw 0" % (pre, pre))
                elif rootkind == "view":
                    L.append("reshape %sr %sw %s" % (pre, pre, dims_s([cnt])))
                elif rootkind == "clone":
                    L.append("clone %sr %sw" % (pre, pre))
                root_ = "w" if rootkind in ("leaf", "started-leaf") else "r"
                sd = [cnt] if rootkind == "view" else dims
                L += ["new %sseed %s %s" % (pre, dims_s(sd), vals_s(sv, mode)), "backward %s%s %sseed" % (pre, root_, pre), "grad %sw" % pre]
            L.append("lin c_w %s a_w %s b_w" % (sc(al, mode), sc(be, mode)))
            out.append(Case(L, ("linroot", rootkind, tuple(dims)), ["root-" + rootkind], mode))
    # a broadcast operand (its gradient is a reduction of the adjoint) under seeds of every magnitude
    for k in (-80, -60, -53, -30, 0, 40):
        for (da, db) in (([3], [2, 3]), ([2, 1], [2, 3]), ([1], [4])):
            od = compat(da, db)
            cnt = prod(od)
            f = Fraction(2) ** k if mode == "exact" else 2.0 ** k
            s1 = [x * f for x in ints(rng, cnt, -3, 3, nonzero=True)]
            s2 = [x * f for x in ints(rng, cnt, -3, 3, nonzero=True)]
            al, be = rng.choice([2, -1, 3]), rng.choice([1, -2])
            s3 = [al * x + be * y for x, y in zip(s1, s2)]
            L = []
            va, vb = vals_s(gen_vals(rng, prod(da), mode), mode), vals_s(gen_vals(rng, prod(db), mode), mode)
            for op in ("add", "mul"):
                for pre, sv in (("a%s_" % op, s1), ("b%s_" % op, s2), ("c%s_" % op, s3)):
                    L += ["new %sa %s %s" % (pre, dims_s(da), va), "tracked %sa" % pre, "new %sb %s %s" % (pre, dims_s(db), vb), "tracked %sb" % pre,
                          "%s %sr %sa %sb" % (op, pre, pre, pre), "new %sseed %s %s" % (pre, dims_s(od), vals_s(sv, mode)),
                          "backward %sr %sseed" % (pre, pre), "grad %sa" % pre, "grad %sb" % pre]
                L.append("lin c%s_a %s a%s_a %s b%s_a" % (op, sc(al, mode), op, sc(be, mode), op))
                L.append("lin c%s_b %s a%s_b %s b%s_b" % (op, sc(al, mode), op, sc(be, mode), op))
            out.append(Case(L, ("linscale", k, tuple(da), tuple(db)), ["seed-magnitude", "2^%d" % k], mode))
    for i in range(n):
        p = build_program(rng, mode, rng.randint(1, 9 if tier == "quick" else 14))
        root = rng.choice(sorted(p.inter & set(p.shape)) or p.names())
        names = set(p.shape)
        cnt = prod(p.shape[root])
        s1 = ints(rng, cnt, -3, 3)
        s2 = ints(rng, cnt, -3, 3)
        al, be = rng.randint(-3, 3), rng.randint(-3, 3)
        # seeds of any magnitude: far below the machine epsilon, or huge, or mixed (linearity is exact in
        # binary floating point under scaling by powers of two)
        if rng.random() < 0.4:
            k1, k2 = rng.choice([(-60, -60), (-60, 0), (40, 40), (-100, -100), (-30, 20)])
            f1 = Fraction(2) ** k1 if mode == "exact" else 2.0 ** k1
            f2 = Fraction(2) ** k2 if mode == "exact" else 2.0 ** k2
            s1 = [x * f1 for x in s1]
            s2 = [x * f2 for x in s2]
        s3 = [al * x + be * y for x, y in zip(s1, s2)]
        L = []
        for pre, sv in (("a_", s1), ("b_", s2), ("c_", s3)):
            L += rename_lines(p.L, names, pre)
            L.append("new %sseed %s %s" % (pre, dims_s(p.shape[root]), vals_s(sv, mode)))
            L.append("backward %s%s %sseed" % (pre, root, pre))
        for v in sorted(names):
            L.append("grad c_%s" % v)
            L.append("lin c_%s %s a_%s %s b_%s" % (v, sc(al, mode), v, sc(be, mode), v))
        # omitted seed == ones
        L += rename_lines(p.L, names, "d_")
        L += rename_lines(p.L, names, "e_")
        L.append("new e_seed %s %s" % (dims_s(p.shape[root]), vals_s([1] * cnt, mode)))
        L.append("backward d_%s -" % root)
        L.append("backward e_%s e_seed" % root)
        for v in sorted(names):
            L.append("samegrad d_%s e_%s" % (v, v))
        out.append(Case(L, ("lin", i, al, be, dag_key(p)), ["alpha%d" % al, "beta%d" % be], mode,
                        nontrivial=(al != 0 or be != 0)))
    # seeds that agree in everything a summary could see - shape, element total, multiset of entries - and differ
    # in where the entries sit (one-hot pairs, permutations, [2,0] next to [1,1]), through operations whose
    # adjoint arrives as an array of several elements (partial sums, products, a broadcast operand); passes in
    # sequence in one process, then an omitted seed straight after a seed with the total of ones
    for (dims, kk) in (([2, 3], 1), ([3, 2], 1), ([2, 2, 2], 1), ([2, 2, 2], 2), ([4, 2], 1)):
        od = dims[:len(dims) - kk] + [1]
        cnt = prod(od)
        pairs = []
        for i in range(cnt):
            for j in range(cnt):
                if i != j and len(pairs) < 3:
                    pairs.append(([1 if t == i else 0 for t in range(cnt)], [1 if t == j else 0 for t in range(cnt)]))
        base = ints(rng, cnt, -3, 3, nonzero=True)
        perm = base[1:] + base[:1]
        pairs.append((base, perm))
        pairs.append(([2] + [0] * (cnt - 1), [1, 1] + [0] * (cnt - 2)))
        for (s1, s2) in pairs:
            for shape_ in ("sum", "mulsum", "bcastsum"):
                al, be = rng.choice([2, -1, 3]), rng.choice([1, -2, 1])
                s3 = [al * x + be * y for x, y in zip(s1, s2)]
                L = []
                vals = vals_s(gen_vals(rng, prod(dims), mode), mode)
                cv = vals_s(gen_vals(rng, prod(dims), mode), mode)
                bv = vals_s(gen_vals(rng, dims[-1], mode), mode)

                def inst(pre, seedline):
                    M = ["new %sw %s %s" % (pre, dims_s(dims), vals), "tracked %sw" % pre]
                    if shape_ == "sum":
                        M.append("sum %sr %sw %d" % (pre, pre, kk))
                    elif shape_ == "mulsum":
                        M += ["new %sc %s %s" % (pre, dims_s(dims), cv), "mul %sm %sw %sc" % (pre, pre, pre), "sum %sr %sm %d" % (pre, pre, kk)]
                    else:
                        M += ["new %sb %s %s" % (pre, dims_s([dims[-1]]), bv), "tracked %sb" % pre, "mul %sm %sw %sb" % (pre, pre, pre),
                              "sum %sr %sm %d" % (pre, pre, kk)]
                    return M + seedline
                for pre, sv in (("a_", s1), ("b_", s2), ("c_", s3)):
                    L += inst(pre, ["new %sseed %s %s" % (pre, dims_s(od), vals_s(sv, mode)), "backward %sr %sseed" % (pre, pre), "grad %sw" % pre])
                L.append("lin c_w %s a_w %s b_w" % (sc(al, mode), sc(be, mode)))
                if shape_ == "bcastsum":
                    L.append("lin c_b %s a_b %s b_b" % (sc(al, mode), sc(be, mode)))
                # the same graph differentiated again with the other seed: (s1 then s2) on one instance = s1 + s2 on a fresh one
                L += inst("f_", ["new f_s1 %s %s" % (dims_s(od), vals_s(s1, mode)), "backward f_r f_s1",
                                 "new f_s2 %s %s" % (dims_s(od), vals_s(s2, mode)), "backward f_r f_s2", "grad f_w"])
                L.append("lin f_w %s a_w %s b_w" % (sc(1, mode), sc(1, mode)))
                # a seed whose total is the total of ones, then the omitted seed, then explicit ones
                L += inst("p_", ["new p_seed %s %s" % (dims_s(od), vals_s([cnt] + [0] * (cnt - 1), mode)), "backward p_r p_seed", "grad p_w"])
                L += inst("d_", ["backward d_r -", "grad d_w"])
                L += inst("e_", ["new e_seed %s %s" % (dims_s(od), vals_s([1] * cnt, mode)), "backward e_r e_seed", "grad e_w"])
                L.append("samegrad d_w e_w")
                out.append(Case(L, ("lincollide", tuple(dims), kk, tuple(s1), tuple(s2), shape_), ["equal-total-seeds", "through-" + shape_], mode))
    return out


def fam_flags(rng, n, tier, mode="exact"):
    """C09: every tracked / untracked assignment of the operands of every operation, through
    tracked(), untracked(), start/stop_tracking on handles and on clones; repeated passes"""
    cases = []
    binops = ["add", "sub", "mul"] + (["div"] if mode != "exact" else [])
    unops = ["neg", "relu", "scale", "powf", "sum", "reshape"] + (["exp", "ln", "sigmoid", "recip", "softmax"] if mode != "exact" else [])

    def leaf(L, nm, dims, how):
        L.append("new %s %s %s" % (nm, dims_s(dims), vals_s(gen_vals(rng, prod(dims), mode, "pos"), mode)))
        if how == "tracked":
            L.append("tracked %s" % nm)
        elif how == "start":
            L.append("start %s" % nm)
        elif how == "tracked-stop":
            L += ["tracked %s" % nm, "stop %s" % nm]
        elif how == "untracked":
            L.append("untracked %s" % nm)
        elif how == "clone-tracked":
            L += ["clone %s_c %s" % (nm, nm), "tracked %s_c" % nm, "show %s" % nm, "start %s" % nm, "stop %s" % nm]
        return how in ("tracked", "start")

    hows = ["plain", "tracked", "start", "tracked-stop", "untracked", "clone-tracked"]
    for op in binops + ["axpy"]:
      for (da, db) in (([2, 2], [2]), ([2, 2], [2, 2]), ([2], [2, 2]), ([1, 2], [2, 1])):
        for ha in hows:
            for hb in hows:
                if (da, db) != ([2, 2], [2]) and not (ha in ("plain", "tracked", "untracked") and hb in ("plain", "tracked", "start")):
                    continue
                L = []
                ta = leaf(L, "a", da, ha)
                tb = leaf(L, "b", db, hb)
                if op == "axpy":
                    L.append("axpy r %s a b" % sc(3, mode))
                else:
                    L.append("%s r a b" % op)
                L += ["probekid r 0", "probekid r 1", "probe r"]
                if not (ta or tb):
                    # an untracked result keeps no reference to its operands
                    L += ["probe a", "own b"]
                else:
                    L += ["backward r -", "grad a", "grad b", "grad r", "probekid r 0", "probekid r 1",
                          "start a", "stop a" if not ta else "start a", "stop b", "start b" if tb else "stop b",
                          "backward r -", "grad a", "grad b"]
                cases.append(Case(L, ("fl2", op, ha, hb, tuple(da), tuple(db)), [op, "flags"], mode, nontrivial=(ha != hb)))
    # conv: image / filters tracked in every combination
    for fi in (0, 1):
        for ff in (0, 1):
            L = []
            leaf(L, "img", [1, 3, 3], "tracked" if fi else "plain")
            leaf(L, "flt", [2, 1, 2, 2], "tracked" if ff else "plain")
            L += ["conv r img flt 1 1", "probe r"]
            if fi or ff:
                L += ["backward r -", "grad img", "grad flt"]
            else:
                L += ["own img", "own flt"]
            cases.append(Case(L, ("flconv", fi, ff), ["conv", "flags"], mode, nontrivial=(fi != ff)))
    # a view taken of a tracked array, detached, and viewed again (back to the source's dimensions, or not):
    # the second view is untracked and nothing flows through it
    for first in ("reshape 4", "reshape 1,4", "reshape 2,2", "sum0"):
        for detach in ("untracked", "stop", "clone-untracked", "none"):
            for second in ("reshape 2,2", "reshape 4", "reshape 4,1", "sum0", "neg"):
                L = []
                leaf(L, "a", [2, 2], "tracked")
                L.append("sum v a 0" if first == "sum0" else "reshape v a %s" % first.split()[1])
                w = "v"
                if detach == "untracked":
                    L.append("untracked v")
                elif detach == "stop":
                    L.append("stop v")
                elif detach == "clone-untracked":
                    L += ["clone vc v", "untracked vc"]
                    w = "vc"
                if second == "sum0":
                    L.append("sum w %s 0" % w)
                elif second == "neg":
                    L.append("neg w %s" % w)
                else:
                    L.append("reshape w %s %s" % (w, second.split()[1]))
                L += ["flags w", "probe w", "flags v", "flags a"]
                if detach == "none":
                    L += ["backward w -", "grad a"]
                else:
                    # a result that must be untracked: differentiating something built on it leaves `a` alone
                    L += ["new k 2,2 %s" % vals_s(gen_vals(rng, 4, mode, "pos"), mode), "tracked k"]
                    L.append("reshape w2 w 2,2")
                    L += ["mul z w2 k", "backward z -", "grad a", "grad k"]
                cases.append(Case(L, ("flview", first, detach, second), ["view-roundtrip", "flags"], mode, nontrivial=(detach != "none")))
    special = [("scale", " " + sc(1, mode)), ("scale", " " + sc(0, mode)), ("scale", " " + sc(-1, mode)), ("powf", " " + sc(1, mode)),
               ("sum", " 2"), ("sum", " 0"), ("reshape", " 2,2"), ("reshape", " 1,4"), ("reshape", " 2,1,2")]
    for (op, sarg) in [(o, None) for o in unops] + special:
        for ha in hows:
            if sarg is not None and ha not in ("plain", "tracked", "start", "untracked"):
                continue
            L = []
            ta = leaf(L, "a", [2, 2], ha)
            arg = sarg if sarg is not None else {"scale": " " + sc(2, mode), "powf": " " + sc(2, mode), "sum": " 1", "reshape": " 4"}.get(op, "")
            L.append("%s r a%s" % (op, arg))
            L += ["probekid r 0", "probe r"]
            if not ta:
                L += ["probe a"] + (["own a"] if op != "reshape" else [])
            else:
                L += ["backward r -", "grad a", "grad r", "start a", "probekid r 0"]
            cases.append(Case(L, ("fl1", op, ha, sarg or ""), [op, "flags"] + (["special-parameter"] if sarg else []), mode))
    # matmul with the additive term, all 8 assignments
    # (every form of the additive term: a bias row, a single value, a one-row and a full matrix)
    for cd in ([2], [1], [1, 2], [2, 2]):
      for fa in (0, 1):
        for fb in (0, 1):
            for fc in (0, 1):
                L = []
                leaf(L, "a", [2, 3], "tracked" if fa else "plain")
                leaf(L, "b", [3, 2], "tracked" if fb else "plain")
                leaf(L, "c", cd, "tracked" if fc else "plain")
                L += ["matmul r a N b N c", "probe r", "probekid r 2"]
                if fa or fb or fc:
                    L += ["backward r -", "grad a", "grad b", "grad c"]
                else:
                    L += ["own a", "own b", "own c"]
                cases.append(Case(L, ("flmm", fa, fb, fc, tuple(cd)), ["matmul", "flags"], mode, nontrivial=(fa + fb + fc in (1, 2))))
    # nothing flows through an untracked intermediate; flags survive passes; gradients are plain arrays
    for _ in range(n):
        p = Prog(rng, mode)
        a = p.new_leaf(tracked=True)
        b = p.new_leaf(tracked=True)
        y = p.op_binary(a=a, b=p.pick_compat(a))
        how = rng.choice(["untracked", "stop", "clone-untracked", "keep"])
        if how == "untracked":
            p.emit("untracked %s" % y); p.tr[y] = False
        elif how == "stop":
            p.emit("stop %s" % y); p.tr[y] = False
        elif how == "clone-untracked":
            p.emit("clone yc %s" % y); p.emit("untracked yc")
            p.shape["yc"] = list(p.shape[y]); p.tr["yc"] = False
            y = "yc"
        z = p.op_binary(a=y, b=p.pick_compat(y))
        for _ in range(rng.randint(0, 4)):
            p.random_op()
        p.backward(z)
        p.read_all()
        for v in p.names():
            p.emit("start %s" % v)
            p.emit("stop %s" % v) if not p.tr[v] else None
        g = p.fresh("t")
        p.emit("takegrad %s %s" % (g, z))
        p.emit("flags %s" % g)          # tr=0 keep=0 kids=0: a plain array
        p.backward(z)
        p.read_all(probes=False)
        cases.append(Case(p.L, ("flp", how, dag_key(p)), ["through-" + how], mode))
    return cases


FAMILIES.update({"transparent": fam_transparent, "linear": fam_linear, "flags": fam_flags})


def accumulate_flagged(rng, mode):
    """an intermediate result re-flagged in every way (dropped from tracking and started again: tracked without
    the keep flag; stopped; re-tracked; clones re-flagged) and then consumed by a tracked operation: two or three
    passes leave exactly two or three times the single-pass gradients, nothing stays pending anywhere"""
    out = []
    seqs = [[], ["untracked c", "start c"], ["stop c", "start c"], ["untracked c", "tracked c"], ["stop c"],
            ["clone cc c", "untracked cc", "start cc"], ["clone cc c", "stop cc"], ["start c"], ["tracked c"]]
    for seq in seqs:
        for consumer in ("mul", "add", "matmul"):
            for npass in (2, 3):
                use = "cc" if any(l.startswith("clone cc") for l in seq) else "c"
                def prog(pre):
                    L = ["new %sa 2,2 %s" % (pre, vals_s([1, 2, 3, 4], mode)), "tracked %sa" % pre,
                         "new %sb 2,2 %s" % (pre, vals_s([2, -1, 1, 3], mode)), "tracked %sb" % pre,
                         "mul %sc %sa %sb" % (pre, pre, pre)]
                    for l in seq:
                        L.append(" ".join(t if t in ("untracked", "start", "stop", "tracked", "clone") else pre + t for t in l.split()))
                    L += ["new %sk 2,2 %s" % (pre, vals_s([1, -2, 2, 1], mode)), "tracked %sk" % pre]
                    if consumer == "matmul":
                        L.append("matmul %sd %s%s N %sk N -" % (pre, pre, use, pre))
                    else:
                        L.append("%s %sd %s%s %sk" % (consumer, pre, pre, use, pre))
                    return L
                L = prog("a_")
                for k in range(npass):
                    L += ["backward a_d -", "probe a_c", "probe a_a", "probe a_d", "grad a_a", "grad a_b", "grad a_k"]
                for k in range(npass):
                    L += prog("p%d_" % k) + ["backward p%d_d -" % k]
                for v in ("a", "b", "k"):
                    L.append("sumgrad a_%s %s" % (v, ",".join("p%d_%s" % (k, v) for k in range(npass))))
                out.append(Case(L, ("accflag", tuple(seq), consumer, npass), ["reflagged-intermediate", "passes%d" % npass], mode))
    return out


def fam_accumulate(rng, n, tier, mode="exact"):
    """C10: a program with a *sequence* of passes (the same result again, an interior node and later a
    result containing it, results sharing sub-graphs), optionally with a clear in between, next to one
    fresh instance of the program per pass running that pass alone: every gradient must be the sum of
    the single-pass gradients since the last clear (`sumgrad`, the implementation against itself)."""
    out = accumulate_flagged(rng, mode)
    for i in range(n):
        p = build_program(rng, mode, rng.randint(2, 10 if tier == "quick" else 16))
        names = sorted(p.shape)
        inter = sorted(p.inter & set(p.shape)) or names
        npass = rng.randint(2, 4)
        passes = []
        for k in range(npass):
            x = rng.random()
            if k > 0 and x < 0.35:
                r = passes[-1][0]                       # the same result again
            elif x < 0.7:
                r = rng.choice(inter)                   # any interior node / result
            else:
                r = inter[-1]
            seed = gen_vals(rng, prod(p.shape[r]), mode) if rng.random() < 0.7 else None
            passes.append((r, seed))
        clear_at = rng.randint(1, npass - 1) if rng.random() < 0.4 else None
        clear_name = rng.choice(names)
        L = rename_lines(p.L, set(names), "a_")
        for k, (r, seed) in enumerate(passes):
            if clear_at == k:
                L.append("cleargrad a_%s" % clear_name)
            if seed is None:
                L.append("backward a_%s -" % r)
            else:
                L.append("new a_seed%d %s %s" % (k, dims_s(p.shape[r]), vals_s(seed, mode)))
                L.append("backward a_%s a_seed%d" % (r, k))
            for v in names:
                L.append("probe a_%s" % v)
        for k, (r, seed) in enumerate(passes):
            pre = "p%d_" % k
            L += rename_lines(p.L, set(names), pre)
            if seed is None:
                L.append("backward %s%s -" % (pre, r))
            else:
                L.append("new %sseed %s %s" % (pre, dims_s(p.shape[r]), vals_s(seed, mode)))
                L.append("backward %s%s %sseed" % (pre, r, pre))
        node = lambda v: p.alias.get(v, v)
        for v in names:
            ks = [k for k in range(npass) if not (node(v) == node(clear_name) and clear_at is not None and k < clear_at)]
            if ks:
                L.append("sumgrad a_%s %s" % (v, ",".join("p%d_%s" % (k, v) for k in ks)))
        kinds = ["passes%d" % npass] + (["clear"] if clear_at is not None else []) + \
                (["repeat"] if any(passes[k][0] == passes[k - 1][0] for k in range(1, npass)) else [])
        out.append(Case(L, ("acc", i, tuple(r for r, _ in passes), clear_at, dag_key(p)), kinds, mode))
    return out


def fam_bcast_add(rng, n, tier, mode="exact"):
    """C03: `a + b` / `a - b` with a non-uniform seed: the gradient of a broadcast operand is the sum of
    the adjoint over the broadcast positions (1-3 uses), with exactly the operand's dimensions"""
    cases = []
    shapes = all_shapes(4, 3) if tier == "thorough" else all_shapes(3, 2)
    pairs = [(a, b) for a in shapes for b in shapes if compat(a, b) is not None and a != b]
    if tier != "thorough":
        pass
    for (a, b) in pairs:
        uses = rng.choice([1, 2, 3])
        op = rng.choice(["add", "sub"])
        cases.append(Case(ewise_case(rng, a, b, mode, [op], True, uses), ("ba", op, tuple(a), tuple(b), uses),
                          [op, "uses%d" % uses], mode))
    # one array reached through contributions of its own dimensions AND of the same length but higher
    # rank ([3] next to [1,3] / [1,1,3]): whatever arrives first, the stored gradient has the array's dimensions
    for s_ in (all_shapes(2, 3) if tier != "thorough" else all_shapes(3, 3)):
        for k in (1, 2):
            t_ = [1] * k + s_
            for first in ("same", "higher"):
                for passthru in ("add", "reshape", "mmadd"):
                    L = ["new b %s %s" % (dims_s(s_), vals_s(gen_vals(rng, prod(s_), mode), mode)), "tracked b",
                         "new u %s %s" % (dims_s(s_), vals_s(gen_vals(rng, prod(s_), mode), mode)),
                         "new x %s %s" % (dims_s(t_), vals_s(gen_vals(rng, prod(t_), mode), mode))]
                    if passthru == "add":
                        L.append("add t1 b u")
                    elif passthru == "reshape":
                        L.append("reshape t1 b %s" % dims_s(s_))
                    else:
                        if len(s_) != 1:
                            continue
                        # b as the additive term of a product: the delta is handed through unchanged
                        L += ["new m1 1,2 %s" % vals_s([1, 2], mode), "new m2 2,%d %s" % (s_[0], vals_s(gen_vals(rng, 2 * s_[0], mode), mode)),
                              "matmul t1 m1 N m2 N b"]
                    L.append("mul t2 b x")
                    L.append("add r t1 t2" if first == "same" else "add r t2 t1")
                    L += ["backward r -", "grad b", "mul q r r", "backward q -", "grad b"]
                    cases.append(Case(L, ("bamix", tuple(s_), k, first, passthru), ["mixed-rank", passthru], mode))
    # one operand broadcast twice in one pass into results of EQUAL element count but different layout
    # ([3,1] into [3,4] and into [4,3,1]): each contribution is reduced with its own shape before they meet
    layouts = [([3, 1], [3, 4], [4, 3, 1]), ([1, 2], [3, 2], [3, 1, 2]), ([2, 1], [2, 3], [3, 2, 1]), ([2, 1, 2], [2, 3, 2], [3, 2, 1, 2]),
               ([1, 3], [4, 3], [2, 2, 3]), ([3, 1], [3, 2], [2, 3, 1]), ([2, 1, 1], [2, 2, 3], [3, 2, 1, 2])]
    for (da, d1, d2) in layouts:
        if compat(da, d1) != d1 or compat(da, d2) != d2 or prod(d1) != prod(d2):
            continue
        for op in ("mul", "add"):
            for order in (0, 1):
                cnt = prod(d1)
                L = ["new a %s %s" % (dims_s(da), vals_s(gen_vals(rng, prod(da), mode), mode)), "tracked a",
                     "new x %s %s" % (dims_s(d1), vals_s([i + 1 for i in range(cnt)] if mode == "exact" else floats(rng, cnt), mode)),
                     "new y %s %s" % (dims_s(d2), vals_s([2 * i * i + 1 for i in range(cnt)] if mode == "exact" else floats(rng, cnt), mode)),
                     "%s r1 a x" % op, "%s r2 a y" % op, "reshape f1 r1 %d" % cnt, "reshape f2 r2 %d" % cnt,
                     "new w %d %s" % (cnt, vals_s([3 * i + 1 for i in range(cnt)] if mode == "exact" else floats(rng, cnt), mode)),
                     "mul g1 f1 w", ("add z g1 f2" if order == 0 else "add z f2 g1"), "backward z -", "grad a",
                     "backward z -", "grad a"]
                cases.append(Case(L, ("balayout", tuple(da), tuple(d1), tuple(d2), op, order), ["equal-count-layouts", op], mode))
    for _ in range(n):
        a, b = rand_compat_pair(rng, 5 if tier == "thorough" else 4, 4)
        uses = rng.choice([1, 2, 3, 4])
        op = rng.choice(["add", "sub"])
        cases.append(Case(ewise_case(rng, a, b, mode, [op], True, uses), ("bar", op, tuple(a), tuple(b), uses),
                          [op, "uses%d" % uses, "random"], mode, nontrivial=(a != b)))
    return cases


def fam_chains(rng, n, tier, mode="exact"):
    """C11: self-product chains of user operations — 2^depth paths, depth+1 closure invocations"""
    cases = []
    for depth in ([5, 20, 45] if tier == "quick" else [3, 10, 30, 45, 60]):
        for kind, args in ((1, "y,y"), (3, "y,y,y"), (0, "y,y")):
            L = ["new x 2 %s" % vals_s({1: [1, -1], 3: [0, -1], 0: [1, 0]}[kind], mode), "tracked x", "clone y x"]
            for d in range(depth if kind != 0 else min(depth, 40)):
                L.append("cop %d y %s" % (kind, args))
            L += ["backward y -", "log", "probe x", "probe y", "grad x"]
            cases.append(Case(L, ("chain", depth, kind), ["chain", "depth%d" % depth], mode))
    return cases


FAMILIES.update({"accumulate": fam_accumulate, "bcast_add": fam_bcast_add, "chains": fam_chains})


def fam_alias(rng, n, tier, mode="exact"):
    """C08: histories built around shared storage — reshaped views, clones, gradients fetched from the
    cells, seeds passed as clones (so a gradient cell shares the seed's buffer) — followed by further
    passes and updates; the harness re-reads every live handle after every command."""
    cases = []
    # a parameter stepped by the optimizer while other handles of its buffer are alive: a view taken before
    # it was tracked, a view taken afterwards, a clone, a result computed from it - none of them may change
    for when in ("view-before", "view-after", "clone", "result", "none"):
        for src in ("setgrad", "pass"):
            for dims in ([4], [2, 2]):
                L = ["new p %s %s" % (dims_s(dims), vals_s(gen_vals(rng, 4, mode), mode))]
                if when == "view-before":
                    L.append("reshape v p 4,1")
                L.append("tracked p")
                if when == "view-after":
                    L.append("reshape v p 1,4")
                if when == "clone":
                    L.append("clone v p")
                if when == "result":
                    L.append("scale v p %s" % sc(3, mode))
                if src == "setgrad":
                    L += ["new g %s %s" % (dims_s(dims), vals_s(gen_vals(rng, 4, mode), mode)), "setgrad p g"]
                else:
                    L += ["mul r p p", "backward r -", "drop r"]
                lr = sc(Fraction(1, 2) if mode == "exact" else 0.25, mode)
                L += ["gdupdate %s p" % lr, "show p"] + (["show v"] if when != "none" else [])
                L += ["gdupdate %s p" % lr, "show p"] + (["show v"] if when != "none" else [])
                cases.append(Case(L, ("paramview", when, src, tuple(dims)), ["update", when], mode))
    # the activation closures (what layers call) applied to a view / a clone / the array itself, untracked or tracked:
    # the argument's buffer is never written
    if mode != "exact" or True:
        for kind in (["relu"] if mode == "exact" else ["relu", "sigmoid", "softmax"]):
            for how in ("view", "clone", "self", "view-of-view"):
                for trk in (False, True):
                    L = ["new a 2,2 %s" % vals_s([1, -2, 3, -4] if mode == "exact" else [0.5, -1.5, 2.0, -0.25], mode)]
                    if trk:
                        L.append("tracked a")
                    arg = "a"
                    if how == "view":
                        L.append("reshape v a 4"); arg = "v"
                    elif how == "clone":
                        L.append("clone v a"); arg = "v"
                    elif how == "view-of-view":
                        L += ["reshape u a 1,4", "reshape v u 4,1"]; arg = "v"
                    L += ["act r %s %s" % (kind, arg), "show a", "act r2 %s %s" % (kind, arg), "show a", "%s m %s" % (kind, arg), "show a"]
                    cases.append(Case(L, ("actalias", kind, how, trk), ["activation-closure", how], mode))
    for i in range(n):
        p = Prog(rng, mode)
        leaves = [p.new_leaf(tracked=True) for _ in range(rng.randint(1, 3))]
        fetched = 0
        for step in range(rng.randint(6, 22 if tier == "quick" else 34)):
            x = rng.random()
            if x < 0.22:
                # a view of something live
                a = p.pick()
                cnt = prod(p.shape[a])
                d = rng.choice([d for d in range(1, cnt + 1) if cnt % d == 0])
                r = p.fresh("w")
                p.emit("reshape %s %s %s" % (r, a, dims_s([d, cnt // d])))
                p.shape[r] = [d, cnt // d]; p.tr[r] = p.tr[a]; p.inter.add(r); p.tainted.add(r)
            elif x < 0.45:
                p.random_op()
            elif x < 0.70 and p.inter:
                v = rng.choice(sorted(p.inter & set(p.shape)))
                if rng.random() < 0.6:
                    s = p.seed_for(v)
                    p.emit("backwardc %s %s" % (v, s))
                    p.tainted.add(s)
                else:
                    p.backward(v)
            elif x < 0.85:
                v = p.pick()
                if not p.may_fetch(v):
                    continue
                w = p.fresh("t")
                p.emit("grad %s" % v)
                # fetch only where a gradient certainly exists: tracked leaves after a pass is not
                # known statically, so `takegrad` may end the case (identically on both sides)
                p.emit("takegrad %s %s" % (w, v))
                p.shape[w] = list(p.shape[v]); p.tr[w] = False; p.leaf.add(w); p.tainted.add(w)
                fetched += 1
            elif x < 0.92:
                v = p.pick()
                w = p.fresh("k")
                p.emit("clone %s %s" % (w, v))
                p.shape[w] = list(p.shape[v]); p.tr[w] = p.tr[v]; p.tainted.add(w)
                p.alias[w] = p.node(v)
                if v in p.inter:
                    p.inter.add(w)
            else:
                lr = rng.choice([1, 2, Fraction(1, 2)]) if mode == "exact" else rng.uniform(0.01, 1.0)
                ls = [l for l in leaves if l in p.shape]
                if ls:
                    for l in ls:
                        p.emit("clone old_%s_%d %s" % (l, step, l))
                        p.shape["old_%s_%d" % (l, step)] = list(p.shape[l]); p.tr["old_%s_%d" % (l, step)] = True
                        p.tainted.add("old_%s_%d" % (l, step))
                    p.emit("gdupdate %s %s" % (sc(lr, mode), ",".join(ls)))
        p.emit("snapshot")
        cases.append(Case(p.L, ("alias", i, dag_key(p)), ["fetched%d" % min(fetched, 3)] + sorted(set(p.ops_used))[:4], mode))
    return cases


FAMILIES.update({"alias": fam_alias})


def fam_selfviews(rng, n, tier, mode="exact"):
    """C01 / C02: an array combined with another handle of *itself* — a clone, a reshaped view with a
    different alignment (outer-product style broadcasting), sum(0) — as both operands of one operation,
    and further down a chain; gradients against the reference"""
    cases = []
    ops = ["mul", "add", "sub"] + (["div"] if mode != "exact" else [])
    views = [("clone", lambda d: None), ("col", lambda d: [prod(d), 1]), ("row", lambda d: [1, prod(d)]),
             ("flat", lambda d: [prod(d)]), ("sum0", lambda d: None)]
    shapes = [[2], [3], [2, 2], [1, 3], [3, 1], [2, 1, 2]]
    for s in shapes:
        for op in ops:
            for (vn, vf) in views:
                for order in (0, 1):
                    for tracked in ("both", "view-stopped"):
                        L = ["new a %s %s" % (dims_s(s), vals_s(gen_vals(rng, prod(s), mode, "pos"), mode)), "tracked a"]
                        if vn == "clone":
                            L.append("clone v a")
                            vd = s
                        elif vn == "sum0":
                            L.append("sum v a 0")
                            vd = s
                        else:
                            vd = vf(s)
                            L.append("reshape v a %s" % dims_s(vd))
                        if tracked == "view-stopped":
                            L.append("stop v")
                        x, y = ("a", "v") if order == 0 else ("v", "a")
                        if compat(s, vd) is None:
                            continue
                        L.append("%s r %s %s" % (op, x, y))
                        od = compat(s, vd)
                        L.append("new s %s %s" % (dims_s(od), vals_s(seed_vals(rng, prod(od), mode), mode)))
                        L.append("backward r s")
                        L += ["grad a", "grad v", "grad r"]
                        L.append("mul q r r")
                        L.append("backward q -")
                        L += ["grad a", "grad v", "grad r"]
                        cases.append(Case(L, ("sv", tuple(s), op, vn, order, tracked), [op, vn, tracked], mode,
                                          nontrivial=(vn not in ("clone", "sum0"))))
    # matmul of an array with another handle of itself: clone, same-shape view, views whose leading
    # dimensions cross-broadcast with the original's; all four flag combinations; values and gradients
    mm = [([2, 2], [2, 2]), ([2, 1, 2, 2], [1, 2, 2, 2]), ([1, 2, 2, 2], [2, 1, 2, 2]), ([2, 2, 2], [2, 2, 2]),
          ([2, 3], [3, 2]), ([2, 2, 3], [2, 3, 2]), ([3, 3], [3, 3])]
    for (da, dv) in mm:
        for ta in ("N", "T"):
            for tb in ("N", "T"):
                for how in ("reshape", "clone", "same"):
                    if how in ("clone", "same") and da != dv:
                        continue
                    ka = da[-2] if ta == "T" else da[-1]
                    kb = dv[-1] if tb == "T" else dv[-2]
                    if ka != kb:
                        continue
                    for order in (0, 1):
                      for cform in ("-", "bias", "full"):
                        if how == "same" and order == 1:
                            continue
                        L = ["new a %s %s" % (dims_s(da), vals_s(list(range(1, prod(da) + 1)) if mode == "exact" else floats(rng, prod(da)), mode)),
                             "tracked a"]
                        if how == "reshape":
                            L.append("reshape v a %s" % dims_s(dv))
                        elif how == "clone":
                            L.append("clone v a")
                        other = "a" if how == "same" else "v"      # `same`: literally the same handle on both sides
                        x, y, fx, fy = ("a", other, ta, tb) if order == 0 else (other, "a", tb, ta)
                        dx, dy = (da, dv) if order == 0 else (dv, da)
                        if order == 1:
                            kx = dv[-2] if fx == "T" else dv[-1]
                            ky = da[-1] if fy == "T" else da[-2]
                            if kx != ky:
                                continue
                        rows_ = dx[-1] if fx == "T" else dx[-2]
                        cols_ = dy[-2] if fy == "T" else dy[-1]
                        cname = "-"
                        if cform != "-":
                            cd = [cols_] if cform == "bias" else [rows_, cols_]
                            # an additive term that is neither constant nor symmetric
                            cv = [3 * i * i + 2 * i + 1 for i in range(prod(cd))]
                            L += ["new c %s %s" % (dims_s(cd), vals_s(cv if mode == "exact" else [float(v) / 4 for v in cv], mode)), "tracked c"]
                            cname = "c"
                        L += ["matmul r %s %s %s %s %s" % (x, fx, y, fy, cname), "backward r -", "grad a"]
                        if how != "same":
                            L.append("grad v")
                        if cname == "c":
                            L.append("grad c")
                        cases.append(Case(L, ("svmm", tuple(da), tuple(dv), ta, tb, how, order, cform), ["matmul", how, "c=" + cform], mode,
                                          nontrivial=True))
    for _ in range(n):
        p = Prog(rng, mode)
        a = p.new_leaf(tracked=True)
        for _ in range(rng.randint(1, 3)):
            cnt = prod(p.shape[a])
            t = rng.choice([[cnt, 1], [1, cnt], [cnt]])
            v = p.fresh("w")
            p.emit("reshape %s %s %s" % (v, a, dims_s(t)))
            p.shape[v] = t; p.tr[v] = True; p.inter.add(v); p.tainted.add(v)
            if compat(p.shape[a], t) is not None:
                p.op_binary(a=rng.choice([a, v]), b=rng.choice([a, v]))
        for _ in range(rng.randint(0, 5)):
            p.random_op()
        r = rng.choice(sorted(p.inter & set(p.shape)))
        p.backward(r)
        p.read_all(probes=False)
        cases.append(Case(p.L, ("svr", dag_key(p)), ["random"], mode))
    return cases


def fam_cost(rng, n, tier, mode="exact"):
    """C15: the two cost closures applied directly to outputs of rank 1..4 (the divisor is the element
    count for mse, the leading dimension for cross-entropy), with gradients"""
    cases = []
    shapes = all_shapes(4, 3) if tier == "thorough" else all_shapes(3, 3) + [[2, 3, 1, 2], [3, 1, 2, 2], [2, 2, 2, 2]]
    for s in shapes:
        for cost in (["mse"] if mode == "exact" else ["mse", "xent"]):
            if mode == "exact" and (prod(s) & (prod(s) - 1)):
                continue
            L = ["new o %s %s" % (dims_s(s), vals_s(gen_vals(rng, prod(s), mode, "pos"), mode)), "tracked o",
                 "new t %s %s" % (dims_s(s), vals_s(gen_vals(rng, prod(s), mode), mode)),
                 "cost c %s o t" % cost, "sumall c", "backward c -", "grad o"]
            cases.append(Case(L, ("cost", cost, tuple(s)), [cost, "rank%d" % len(s)], mode))
    # target and output of different (broadcast-compatible) shapes: the divisor is the OUTPUT's element count (mse) /
    # leading dimension (cross-entropy), whatever the target's shape
    for (od, td) in (([4, 2], [2]), ([4, 2], [1, 2]), ([2], [4, 2]), ([1, 2], [4, 2]), ([2, 2, 2], [2]), ([2, 1, 2], [2, 2, 2]), ([4], [1])):
        for cost in (["mse"] if mode == "exact" else ["mse", "xent"]):
            L = ["new o %s %s" % (dims_s(od), vals_s(gen_vals(rng, prod(od), mode, "pos"), mode)), "tracked o",
                 "new t %s %s" % (dims_s(td), vals_s(gen_vals(rng, prod(td), mode), mode)),
                 "cost c %s o t" % cost, "sumall c", "backward c -", "grad o"]
            cases.append(Case(L, ("costbc", cost, tuple(od), tuple(td)), [cost, "broadcast-target"], mode))
    # one cost closure applied to a sequence of outputs of different sizes (the harness keeps one closure
    # per kind for the whole case): every call normalises by its own argument's size
    seqs = [[[4, 2], [2, 2], [4, 2]], [[2], [1, 2], [4, 2]], [[2, 2, 2], [2], [1, 2, 2]], [[1, 4], [4, 4], [2, 4]]]
    for sq in seqs:
        for cost in (["mse"] if mode == "exact" else ["mse", "xent"]):
            L = []
            for k, d in enumerate(sq):
                L += ["new o%d %s %s" % (k, dims_s(d), vals_s(gen_vals(rng, prod(d), mode, "pos"), mode)), "tracked o%d" % k,
                      "new t%d %s %s" % (k, dims_s(d), vals_s(gen_vals(rng, prod(d), mode), mode)),
                      "cost c%d %s o%d t%d" % (k, cost, k, k), "backward c%d -" % k, "grad o%d" % k]
            cases.append(Case(L, ("costseq", cost, tuple(map(tuple, sq))), [cost, "sequence"], mode))
    return cases


FAMILIES.update({"selfviews": fam_selfviews, "cost": fam_cost})

def fam_scalar_edges(rng, n, tier, mode="float", part="all"):
    """every scalar function at the edges of its range: magnitudes 1e-30 .. 1e30, forward value and
    gradient, one or two elements per case (a non-finite result ends a case, so cases are tiny).  A
    clamp, an epsilon or a cast that differs between the scalar types shows here first."""
    cases = []
    mags = [1e-30, 1e-20, 1e-12, 1e-10, 1e-8, 1e-7, 3e-7, 1e-6, 1e-4, 1e-2, 0.5, 1.0, 2.0, 10.0, 30.0, 80.0, 1e3, 1e6, 1e10, 1e20, 1e30]
    if mode == "float":
        # doubles whose square or cube leaves the representable range while the derivative does not
        mags = [1e-200, 1.5e-164, 1e-110, 1e-60] + mags + [1e60, 1e110, 1.3e157, 1e200]
    ops = [("ln", "ln r a", True), ("exp", "exp r a", False), ("recip", "recip r a", False), ("sigmoid", "sigmoid r a", False),
           ("relu", "relu r a", False), ("softmax", "softmax r a", False), ("neg", "neg r a", False)]
    for e in (-1.5, -1.0, 0.5, 2.0, 3.0):
        ops.append(("powf%g" % e, "powf r a %s" % sc(e, mode), True))
    # integral exponents at and around the integer / float precision limits, on negative and positive bases
    for e in (2.0 ** 31, 2.0 ** 31 - 128, 2.0 ** 24, 2.0 ** 24 + 2, 2.0 ** 53, 4.0, 5.0, -2.0, -3.0, 0.0, 1.0, 65536.0, 65537.0):
        for base in ([-1.0, 1.0], [-2.0, 0.5], [-0.5, 2.0], [-1.0, -1.0]):
            cases.append(Case(["new a 2 %s" % vals_s(base, mode), "powf r a %s" % sc(e, mode)], ("edgepow", e, tuple(base)), ["powf", "exponent"], mode))
    for (name, line, posonly) in ops:
        for m in mags:
            for sign in ((1,) if posonly else (1, -1)):
                v = sign * m
                w = sign * m * 1.5
                L = ["new a 2 %s" % vals_s([v, w], mode), "tracked a", line, "backward r -", "grad a"]
                cases.append(Case(L, ("edge", name, m, sign), [name, "edge"], mode))
    # binary operations between very different magnitudes
    for op in ("add", "sub", "mul", "div"):
        for m1 in (1e-20, 1e-7, 1.0, 1e7, 1e20):
            for m2 in (1e-20, 1e-7, 1.0, 1e7, 1e20):
                L = ["new a 2 %s" % vals_s([m1, -m1], mode), "new b 2 %s" % vals_s([m2, 3 * m2], mode),
                     "tracked a", "tracked b", "%s r a b" % op, "backward r -", "grad a", "grad b"]
                cases.append(Case(L, ("edge2", op, m1, m2), [op, "edge"], mode))
    # softmax rows that saturate, differentiated through cross-entropy with the target off the arg-max
    # (the adjoint reaching softmax is huge exactly where the probability is tiny)
    for gap in (1.0, 5.0, 15.0, 20.0, 30.0, 40.0, 60.0, 100.0):
        for bigfirst in (False, True):
            row = [gap, 0.0] if bigfirst else [0.0, gap]
            tgt = [0.0, 1.0] if bigfirst else [1.0, 0.0]
            L = ["new z 2,2 %s" % vals_s(row + [1.0, 2.0], mode), "tracked z", "softmax p z",
                 "new t 2,2 %s" % vals_s(tgt + [0.0, 1.0], mode), "cost e xent p t", "backward e -", "grad z"]
            cases.append(Case(L, ("edgesm", gap, bigfirst), ["softmax", "xent", "edge"], mode))
    # costs on probabilities close to 0 and 1 (and, for doubles, far below the machine epsilon)
    for p in (1e-30, 1e-10, 1e-7, 1e-3, 0.5, 1 - 1e-3, 1 - 1e-7) + ((1e-300, 1e-100, 1e-17, 3e-16, 1e-15) if mode == "float" else (1e-38, 1e-9, 1e-8)):
        L = ["new o 1,2 %s" % vals_s([p, 1 - p if p < 0.5 else 1e-3], mode), "new t 1,2 %s" % vals_s([1.0, 0.0], mode),
             "tracked o", "cost e xent o t", "sumall e", "backward e -", "grad o",
             "cost f mse o t", "sumall f", "backward f -", "grad o"]
        cases.append(Case(L, ("edgecost", p), ["cost", "edge"], mode))
        # the same through a model: softmax output with a tiny probability under the target
    # batches of softmax rows at very different levels (each row normalises on its own; exp stays finite)
    lim = 700.0 if mode == "float" else 80.0
    for hi in (lim, lim * 0.55, lim * 0.3, 30.0):
        for lo in (-lim, -lim * 0.55, -30.0, 0.0):
            rowsv = [hi, hi - 1.0, lo, lo - 1.0]
            for dims in ([2, 2], [2, 1, 2]):
                for order in (0, 1):
                    v = rowsv if order == 0 else rowsv[2:] + rowsv[:2]
                    L = ["new z %s %s" % (dims_s(dims), vals_s(v, mode)), "softmax p z", "sum q p 1"]
                    cases.append(Case(L, ("edgesmb", hi, lo, tuple(dims), order), ["softmax", "batch", "edge"], mode))
    for e in (3e9, 2.0 ** 32, 2.0 ** 33 + 2.0, -3e9, 2.0 ** 31 + 2.0, 2147483649.0):
        for base in ([1.0 + 1e-9, 1.0 - 1e-9], [-(1.0 + 1e-9), -1.0], [1.0 + 2e-10, 1.0]):
            if mode != "float":
                continue
            cases.append(Case(["new a 2 %s" % vals_s(base, mode), "tracked a", "powf r a %s" % sc(e, mode), "backward r -", "grad a"],
                              ("edgepowg", e, tuple(base)), ["powf", "exponent", "gradient"], mode))
    if part == "maps":
        cases = [c for c in cases if not ({"cost", "xent", "add", "sub", "mul", "div"} & set(c.tags))]
    if part == "cost":
        cases = [c for c in cases if "cost" in c.tags or "xent" in c.tags]
    elif part == "softmax":
        cases = [c for c in cases if "softmax" in c.tags and "xent" not in c.tags]
    return cases


FAMILIES.update({"scalar_edges": fam_scalar_edges, "special": fam_special})

AWKWARD = [5, 6, 7, 8, 9, 12, 13, 15, 16, 17, 20, 21, 23, 28, 31, 32, 33, 63, 64, 65]


def fam_sizes(rng, n, tier, mode="exact", part="all", grads=False):
    """lengths that are not small powers of two (5 .. 65): every loop that could be unrolled, chunked or
    vectorised with a remainder - reductions, element maps, element-wise operations, the inner / row /
    column loops of matmul, softmax rows, conv rows, a dense layer's input size"""
    cases = []
    small = lambda k: [rng.randint(-3, 3) for _ in range(k)] if mode == "exact" else floats(rng, k, -2, 2)
    pos = lambda k: [rng.randint(1, 3) for _ in range(k)] if mode == "exact" else posfloats(rng, k)
    lens = AWKWARD if tier == "thorough" else [5, 7, 9, 13, 16, 17, 20, 21, 23, 28, 33, 65]
    # long leading dimensions (pairwise / blocked reductions of a broadcast operand's gradient, long sums)
    # (with gradients the forward-mode reference costs one evaluation per input element: lengths are capped)
    for L in ([127, 129, 255, 257, 258] if tier != "thorough" else ([127, 128, 129, 255, 256, 257, 258, 511, 513, 1030] if not grads else [127, 128, 129, 255, 256, 257, 258, 385])):
        for (da, db) in (([L, 2], [2]), ([2], [L, 2]), ([L, 1, 2], [1, 2]), ([L, 2], [1, 2]), ([L, 3], [L, 1])):
            if part in ("all", "ewise"):
                P = ["new a %s %s" % (dims_s(da), vals_s(small(prod(da)), mode)), "new b %s %s" % (dims_s(db), vals_s(pos(prod(db)), mode))]
                if grads:
                    P += ["tracked a", "tracked b"]
                P.append("%s r a b" % rng.choice(["add", "mul"]))
                if grads:
                    P += ["backward r -", "grad a", "grad b"]
                cases.append(Case(P, ("sz-long", L, tuple(da), tuple(db), grads), ["long", "len%d" % L], mode))
        if part in ("all", "reduce"):
            for dims, k in (([L], 1), ([L, 2], 2), ([2, L], 1)):
                P = ["new a %s %s" % (dims_s(dims), vals_s(small(prod(dims)), mode))]
                if grads:
                    P.append("tracked a")
                P += ["sum r a %d" % k, "sumall a"]
                if grads:
                    P += ["backward r -", "grad a"]
                cases.append(Case(P, ("sz-longsum", L, tuple(dims), k, grads), ["long", "sum", "len%d" % L], mode))
    # buffers of 2^12 .. 2^15 values (block-wise kernels): bias-style and column-style broadcasts whose short
    # operand's length does not divide a power of two, long sums, long maps
    if not grads:
        for (da, db) in (([700, 6], [6]), ([6], [1500, 6]), ([1366, 6], [1, 6]), ([3, 3000], [3000]), ([9001], [1]), ([1], [9001]),
                         ([1500, 7], [1500, 1]), ([2, 1100, 5], [1100, 5]), ([5000, 3], [3])) + ((([6000, 6], [6]), ([33000], [33000])) if tier == "thorough" else ()):
            if part in ("all", "ewise"):
                for op in ("add", "mul"):
                    pat = lambda k, m: [((i * m + 3) % 11) - 5 for i in range(k)] if mode == "exact" else floats(rng, k, -2, 2)
                    P = ["new a %s %s" % (dims_s(da), vals_s(pat(prod(da), 7), mode)), "new b %s %s" % (dims_s(db), vals_s(pat(prod(db), 5), mode)),
                         "%s r a b" % op, "%s q b a" % op]
                    cases.append(Case(P, ("sz-block", tuple(da), tuple(db), op), ["block", "values>=2^%d" % (max(prod(da), prod(db)).bit_length() - 1)], mode))
        if part in ("all", "reduce"):
            for dims, k in (([9001], 1), ([1500, 6], 1), ([1500, 6], 2), ([3, 3000], 1), ([2, 700, 7], 2)):
                P = ["new a %s %s" % (dims_s(dims), vals_s([((i * 7 + 3) % 11) - 5 for i in range(prod(dims))] if mode == "exact" else floats(rng, prod(dims), -2, 2), mode)),
                     "sum r a %d" % k, "sumall a", "neg n a", "scale s a %s" % sc(3, mode), "relu u a"]
                cases.append(Case(P, ("sz-blocksum", tuple(dims), k), ["block", "sum"], mode))
    for L in lens:
        if part in ("all", "reduce"):
            for dims, k in (([L], 1), ([2, L], 1), ([2, L], 2), ([L, 3], 2), ([L, 3], 1), ([2, 2, L], 3)):
                P = ["new a %s %s" % (dims_s(dims), vals_s(small(prod(dims)), mode))]
                if grads:
                    P.append("tracked a")
                P += ["sum r a %d" % k, "sumall a"]
                if grads:
                    od = dims[:len(dims) - k] + [1]
                    P += ["new s %s %s" % (dims_s(od), vals_s(small(prod(od)), mode)), "backward r s", "grad a"]
                cases.append(Case(P, ("sz-sum", L, tuple(dims), k, grads), ["sum", "len%d" % L], mode))
            maps = ["neg", "relu", "scale", "powf"] + ([] if mode == "exact" else ["exp", "sigmoid", "recip", "ln", "softmax"])
            for m in maps:
                arg = {"scale": " " + sc(3, mode), "powf": " " + sc(2, mode)}.get(m, "")
                d = [2, L] if m == "softmax" else [L]
                P = ["new a %s %s" % (dims_s(d), vals_s(pos(prod(d)) if m in ("ln", "recip") else small(prod(d)), mode))]
                if grads:
                    P.append("tracked a")
                P.append("%s r a%s" % (m, arg))
                if grads:
                    P += ["new s %s %s" % (dims_s(d), vals_s(small(prod(d)), mode)), "backward r s", "grad a"]
                cases.append(Case(P, ("sz-map", L, m, grads), [m, "len%d" % L], mode))
        if part in ("all", "ewise"):
            for (da, db) in (([L], [L]), ([L], [1]), ([1], [L]), ([2, L], [L]), ([L, 2], [L, 1]), ([L, 1], [L, 2]), ([L, 1], [1, 3])):
                for op in (["add", "mul", "sub"] if mode == "exact" else ["add", "mul", "sub", "div"]):
                    P = ["new a %s %s" % (dims_s(da), vals_s(small(prod(da)), mode)),
                         "new b %s %s" % (dims_s(db), vals_s(pos(prod(db)), mode))]
                    if grads:
                        P += ["tracked a", "tracked b"]
                    P.append("%s r a b" % op)
                    if grads:
                        P += ["backward r -", "grad a", "grad b"]
                    cases.append(Case(P, ("sz-ew", L, tuple(da), tuple(db), op, grads), [op, "len%d" % L], mode))
        if part in ("all", "matmul"):
            for (m_, k_, n_) in ((2, L, 3), (L, 2, 3), (2, 3, L)):
                for ta in (False, True):
                    for tb in (False, True):
                        for cf in (0, 1):
                            if L > 33 and (ta or cf):
                                continue
                            cases.append(Case(matmul_case(rng, [], [], m_, k_, n_, ta, tb, cf, mode, grads),
                                              ("sz-mm", L, m_, k_, n_, ta, tb, cf, grads), ["matmul", "len%d" % L], mode))
            v = vals_s(small(L), mode)
            for (bd, tb) in (([L, 3], "N"), ([3, L], "T"), ([2, L, 2], "N")):
                cases.append(Case(["new a %d %s" % (L, v), "new b %s %s" % (dims_s(bd), vals_s(small(prod(bd)), mode)),
                                   "matmul r a N b %s -" % tb], ("sz-r1", L, tuple(bd), tb), ["matmul", "rank1", "len%d" % L], mode))
            cases.append(Case(["new a %d %s" % (L, v), "new b %d %s" % (L, vals_s(small(L), mode)), "matmul r a N b N -"],
                              ("sz-dot", L), ["matmul", "dot", "len%d" % L], mode))
            # rank-1 operands whose (transposed) inner dimension cannot match: must be refused whatever the length
            for (bd, ta, tb) in (([2, 3], "T", "N"), ([3, 2], "T", "T"), ([L + 1, 2], "N", "N"), ([2, 3], "N", "N")):
                cases.append(Case(["new a %d %s" % (L, v), "new b %s %s" % (dims_s(bd), vals_s(small(prod(bd)), mode)),
                                   "matmul r a %s b %s -" % (ta, tb)], ("sz-r1bad", L, tuple(bd), ta, tb), ["matmul", "rank1", "refuse", "len%d" % L], mode))
            if L <= 33:
                cases.append(Case(matmul_case(rng, [2], [1], 2, L, 2, False, True, 1, mode, grads),
                                  ("sz-mmb", L, grads), ["matmul", "batched", "len%d" % L], mode))
        if part in ("all", "conv") and L <= 33:
            for (rows, cols, fr, fc, sr, sc_) in ((3, L, 2, 2, 1, 1), (L, 3, 2, 2, 1, 1), (2, L, 1, 3, 1, 2), (4, L, 2, 3, 2, 1)):
                P = ["new a %s %s" % (dims_s([1, rows, cols]), vals_s(small(rows * cols), mode)),
                     "new f %s %s" % (dims_s([2, 1, fr, fc]), vals_s(small(2 * fr * fc), mode))]
                if grads:
                    P += ["tracked a", "tracked f"]
                P.append("conv r a f %d %d" % (sr, sc_))
                if grads:
                    P += ["backward r -", "grad a", "grad f"]
                cases.append(Case(P, ("sz-conv", L, rows, cols, fr, fc, sr, sc_, grads), ["conv", "len%d" % L], mode))
    # wide and tall filters (row-wise block copies), several window positions, unequal strides, depth and batch > 1
    if part in ("all", "conv"):
        for (batch, depth, rows, cols, count, fr, fc, sr, sc_) in (
                ([2], 2, 5, 40, 2, 2, 32, 1, 3), ([], 1, 4, 70, 1, 2, 33, 2, 1), ([], 2, 40, 6, 2, 31, 2, 3, 1), ([2], 1, 70, 5, 1, 64, 3, 1, 2),
                ([], 1, 3, 100, 2, 1, 64, 1, 5), ([], 3, 34, 35, 1, 32, 32, 2, 3), ([], 1, 2, 48, 1, 2, 16, 1, 2), ([], 1, 20, 3, 1, 17, 2, 1, 1)):
            idims = batch + [depth, rows, cols]
            if grads and prod(idims) + count * depth * fr * fc > 150:
                continue        # the forward-mode reference costs one evaluation per input element
            P = ["new a %s %s" % (dims_s(idims), vals_s([((i * 7 + 3) % 11) - 5 for i in range(prod(idims))] if mode == "exact" else floats(rng, prod(idims), -2, 2), mode)),
                 "new f %s %s" % (dims_s([count, depth, fr, fc]), vals_s([((i * 5 + 1) % 7) - 3 for i in range(count * depth * fr * fc)] if mode == "exact" else floats(rng, count * depth * fr * fc, -2, 2), mode))]
            if grads:
                P += ["tracked a", "tracked f"]
            P.append("conv r a f %d %d" % (sr, sc_))
            if grads:
                P += ["backward r -", "grad a", "grad f"]
            cases.append(Case(P, ("sz-convwide", tuple(idims), count, fr, fc, sr, sc_, grads), ["conv", "wide-filter"], mode))
    return cases


FAMILIES.update({"sizes": fam_sizes})


def fam_optim_holds(rng, n, tier, mode="exact"):
    """C12 / C13 / C08: an optimizer step over parameter lists in which every subset of the parameters is still
    named by something else when the step runs - a clone, a result computed from it (a live graph), a reshaped
    view - and the rest are named by nothing (results dropped before the step); a twin list with the same values
    and gradients and no other handle is stepped next to it and compared parameter by parameter."""
    cases = []
    kinds = ("none", "clone", "result", "view")
    combos = []
    for k in (2, 3):
        combos += [(k, h) for h in itertools.product(kinds, repeat=k)]
    for _ in range(n):
        k = rng.randint(2, 5)
        combos.append((k, tuple(rng.choice(kinds) for _ in range(k))))
    for (k, holds) in combos:
        for src in (("setgrad", "pass") if k <= 2 else (rng.choice(("setgrad", "pass")),)):
            L = []
            shapes = [rand_shape(rng, 2, 3) for _ in range(k)]
            names, twins = ["p%d" % i for i in range(k)], ["z%d" % i for i in range(k)]
            for i, (sh, hold) in enumerate(zip(shapes, holds)):
                vals = vals_s(gen_vals(rng, prod(sh), mode), mode)
                gv = vals_s(gen_vals(rng, prod(sh), mode), mode)
                for nm in (names[i], twins[i]):
                    L += ["new %s %s %s" % (nm, dims_s(sh), vals), "tracked %s" % nm]
                    if src == "setgrad":
                        L += ["new g%s %s %s" % (nm, dims_s(sh), gv), "setgrad %s g%s" % (nm, nm)]
                    else:
                        L += ["new c%s %s %s" % (nm, dims_s(sh), gv), "mul r%s %s c%s" % (nm, nm, nm), "backward r%s -" % nm, "drop r%s" % nm]
                if hold == "clone":
                    L.append("clone h%d %s" % (i, names[i]))
                elif hold == "result":
                    L.append("scale h%d %s %s" % (i, names[i], sc(3, mode)))
                elif hold == "view":
                    L.append("reshape h%d %s %d,1" % (i, names[i], prod(sh)))
            lr = sc(Fraction(1, 2) if mode == "exact" else 0.25, mode)
            for rep in range(2):
                L += ["gdupdate %s %s" % (lr, ",".join(names)), "gdupdate %s %s" % (lr, ",".join(twins)), "snapshot"]
                for a, b in zip(names, twins):
                    L += ["same %s %s" % (a, b), "probe %s" % a]
                L += ["show h%d" % i for i, h in enumerate(holds) if h != "none"]
                if rep == 0:                      # a second step: every parameter is a fresh array now; new gradients
                    for i, sh in enumerate(shapes):
                        gv = vals_s(gen_vals(rng, prod(sh), mode), mode)
                        for nm in (names[i], twins[i]):
                            L += ["new k%s %s %s" % (nm, dims_s(sh), gv), "setgrad %s k%s" % (nm, nm)]
                    if rng.random() < 0.5:
                        j = rng.randrange(k)
                        L.append("clone hh %s" % names[j])
            cases.append(Case(L, ("optholds", k, holds, src, tuple(map(tuple, shapes))),
                              ["k%d" % k, "src-" + src] + sorted(set("hold-" + h for h in holds))
                              + (["unshared-before-shared"] if any(holds[i] == "none" and any(h != "none" for h in holds[i + 1:]) for i in range(k)) else []), mode))
    return cases


FAMILIES.update({"optim_holds": fam_optim_holds})
