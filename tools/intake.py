#!/usr/bin/env python3
"""Take in one seeded change delivered by a sub-agent:
   intake.py <out-dir> <id> <suffix> [f32]
   1. copies patch.diff / demo.rs / notes.md to /verif/seeded/<id>-<suffix>/ (before anything else)
   2. re-confirms it in a scratch worktree of /repo (suite passes with the change; demo fails with it and
      passes without it) - sequentially, no git stash
   3. runs every quick check against it (tools/mutants.py: git apply in /repo, checks, git checkout)
   4. writes meta.json"""
import json, os, shutil, subprocess, sys, tempfile

out, pid, suffix = sys.argv[1], sys.argv[2], sys.argv[3]
feat = ["--features", "f32"] if len(sys.argv) > 4 and sys.argv[4] == "f32" else []
dst = "/verif/seeded/%s-%s" % (pid, suffix)
os.makedirs(dst, exist_ok=True)
for fn in ("patch.diff", "demo.rs", "notes.md"):
    shutil.copy(os.path.join(out, fn), os.path.join(dst, fn))
env = dict(os.environ, CARGO_NET_OFFLINE="true")
wt = tempfile.mkdtemp(prefix="intake-", dir="/tmp")
os.rmdir(wt)
subprocess.run(["git", "-C", "/repo", "worktree", "add", "--detach", wt, "HEAD"], check=True, capture_output=True)
try:
    def sh(cmd):
        return subprocess.run(cmd, cwd=wt, env=env, stdout=subprocess.PIPE, stderr=subprocess.STDOUT, universal_newlines=True)
    r = sh(["git", "apply", os.path.join(dst, "patch.diff")])
    if r.returncode != 0:
        print("PATCH DOES NOT APPLY", r.stdout); sys.exit(1)
    t = sh(["cargo", "test", "--offline"])
    suite = " ".join(l.strip() for l in t.stdout.splitlines() if l.startswith("test result"))
    os.makedirs(os.path.join(wt, "examples"), exist_ok=True)
    shutil.copy(os.path.join(dst, "demo.rs"), os.path.join(wt, "examples", "demo.rs"))
    w = sh(["cargo", "run", "--offline"] + feat + ["--example", "demo"]).returncode
    sh(["git", "checkout", "--", "src"])
    wo = sh(["cargo", "run", "--offline"] + feat + ["--example", "demo"]).returncode
finally:
    subprocess.run(["git", "-C", "/repo", "worktree", "remove", "--force", wt], capture_output=True)
    subprocess.run(["git", "-C", "/repo", "worktree", "prune"], capture_output=True)
print("suite:", suite, "| demo with change rc=%d | without rc=%d" % (w, wo))
ok = ("failed" not in suite or " 0 failed" in suite) and "69 passed" in suite and w != 0 and wo == 0
m = subprocess.run(["python3", "/verif/tools/mutants.py", os.path.join(dst, "patch.diff")], stdout=subprocess.PIPE,
                   stderr=subprocess.STDOUT, universal_newlines=True).stdout
flag = [l for l in m.splitlines() if l.startswith("flagged by")]
flagged = flag[0].split(":")[1].split("(")[0].split() if flag else []
flagged = [f for f in flagged if f != "NONE"]
first = open(os.path.join(dst, "notes.md")).readline().strip()
meta = {"breaks_property": pid,
        "written_by": "independent sub-agent given only the property text, one sentence naming earlier changes to avoid duplicates, and a scratch worktree of /repo",
        "needs_to_manifest": first,
        "confirmed": {"suite_with_change": suite, "demo_with_change": "rc=%d" % w, "demo_without_change": "rc=%d" % wo,
                      "valid": ok,
                      "how": "tools/intake.py: scratch worktree, git apply, cargo test --offline, demo as examples/demo.rs with the change and with src checked out" + (" (--features f32)" if feat else "")},
        "checks_run": "python3 tools/mutants.py seeded/%s-%s/patch.diff" % (pid, suffix),
        "flagged_by_quick_checks": flagged, "target_property_detected": pid in flagged, "history": ""}
json.dump(meta, open(os.path.join(dst, "meta.json"), "w"), indent=1)
print("%s-%s valid=%s flagged_by=%s target_detected=%s" % (pid, suffix, ok, flagged, pid in flagged))
