#!/bin/sh
# Which lines of /repo/src do the correspondence families execute?  (not a registered check: a
# measurement of the reach of the model-to-code tie; needs the nightly toolchain's llvm-tools)
# usage: tools/coverage.sh [quick|thorough]   -> prints llvm-cov's per-file report, writes work/cov/report.txt
set -e
cd "$(dirname "$0")/.."
TIER=${1:-quick}
TOOLS=$(dirname "$(rustc +nightly --print target-libdir)")/bin
COV=/verif/work/cov
rm -rf "$COV"; mkdir -p "$COV"
(cd harness && RUSTFLAGS="-C instrument-coverage" CARGO_TARGET_DIR=/verif/harness/target-cov CARGO_NET_OFFLINE=true \
   cargo +nightly build --offline >/dev/null 2>&1)
BIN=/verif/harness/target-cov/debug/corgi-harness
cp -r evidence "$COV/evidence.keep"
for p in C01 C02 C03 C04 C05 C06 C07 C08 C09 C10 C11 C12 C13 C14 C15 C16 C17 C18; do
  LLVM_PROFILE_FILE="$COV/$p-%p-%m.profraw" VERIF_COV_BIN=$BIN VERIF_TIER=$TIER ./check $p --tier $TIER | tail -1
done
rm -rf evidence; mv "$COV/evidence.keep" evidence     # the measurement must not replace the registered runs' evidence
"$TOOLS/llvm-profdata" merge -sparse "$COV"/*.profraw -o "$COV/cov.profdata"
"$TOOLS/llvm-cov" report "$BIN" -instr-profile="$COV/cov.profdata" $(ls /repo/src/*.rs /repo/src/*/*.rs) | tee "$COV/report.txt"
"$TOOLS/llvm-cov" show "$BIN" -instr-profile="$COV/cov.profdata" --show-line-counts-or-regions $(ls /repo/src/*.rs /repo/src/*/*.rs) > "$COV/lines.txt" 2>/dev/null || true
rm -f "$COV"/*.profraw
