"""Per-property claim texts for MANIFEST.json (what the theorems cover, what the tie covers)."""

COMMON_NOTE = ("Trusted: Lean 4.33 kernel; axioms reported per theorem by #print axioms (subset of propext, Classical.choice, Quot.sound; no sorry/native_decide/own axioms, enforced by the audit step); "
               "the hand-written model corresponds to the Rust code only as far as the differential families exercise it (sampled, not proved); Rust harness, Lean driver and tools/check.py; "
               "f64/f32 rounding, Rc/Cell/RefCell semantics, the allocator, real stack depth and post-panic states are modelled or out of scope, not verified.")

CLAIMS = {
    "C16": {
        "text": "Proved in Lean for all dimension lists and value lists (any rank, any size): the constructor accepts exactly well-formed (dims, values) and stores them unchanged; flat/zeros/nested constructors; nested element (i::idx) is element idx of part i; flatten_indices equals the row-major position for every in-range multi-index (the unit-dimension filter is harmless); rowMajor/unflatten are mutually inverse (row-major layout); flat indexing; equality iff dims and values equal. The model functions are the ones the driver executes; the construct family compares them with the real crate on every rank<=4 shape, every index, nesting, and a malformed stream.",
        "note": COMMON_NOTE + " Rank-0 arrays are outside the quantifier.",
    },
}

NOT_YET = {}
