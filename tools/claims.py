"""Per-property claim texts for MANIFEST.json (what the theorems cover, what the tie covers)."""

COMMON_NOTE = ("Trusted: Lean 4.33 kernel; axioms reported per theorem by #print axioms (subset of propext, Classical.choice, Quot.sound; no sorry/native_decide/own axioms, enforced by the audit step); "
               "the hand-written model corresponds to the Rust code only as far as the differential families exercise it (sampled, not proved); Rust harness, Lean driver and tools/check.py; "
               "f64/f32 rounding, Rc/Cell/RefCell semantics, the allocator, real stack depth and post-panic states are modelled or out of scope, not verified.")

TIE = (" Tie to the code, on every run: the harness (real crate, rebuilt from /repo) and the compiled Lean model interpret the same generated command files; "
       "outputs are compared exactly on integer/dyadic data (and under a tolerance on doubles), and the implementation is also compared with an executable specification written from the property text.")

CLAIMS = {
    "C01": {
        "text": "Proved (Lean): for every well-founded graph (any fan-out, diamonds, self-products, depth; control flow only decides which graph was recorded) with lawful closures whose per-operand contributions are additive and shape-correct (structure `Sem`), a pass that completes from a clean state changes every coordinate of the gradient stored at every node l by exactly the path sum P root l seed - the sum over all tracked paths of the composed contributions, each path once (C01_backward_pathsum, C01_pathsum_unfold, from the conserved quantity T = grad + sum of path sums of pending deltas) - leaves it with the node's shape (C01_grad_shape), enters exactly the reachable nodes once each after all their consumers and touches nothing else (C01_every_path_once). The same-shape addition used when merging is proved pointwise from C04 (add_same). PARTIAL: that each built-in closure's contribution Lambda n i is the transpose-Jacobian (i.e. that the `Sem` hypotheses hold for the heap's graph with the documented derivatives) is not yet proved per operation; it is decided on every run by comparing every gradient of random DAG programs (chains with 2^45..2^60 paths, broadcasting + sharing, views of the same array, data-dependent control flow, zero / one-hot seeds) with an independent forward-mode (dual number) evaluation over the specification operations." + TIE,
        "note": COMMON_NOTE,
        "technique": 'Lean 4 proof of the engine: counting invariant + conserved path-sum quantity (induction over fuel, pend-generalised invariants); differential check of the per-operation hypotheses against a dual-number oracle',
    },
    "C02": {
        "text": "Proved over the reals with Mathlib's HasDerivAt: the tangent rule of every scalar function of the reference differentiation (exp, ln, power with any real exponent, reciprocal, quotient, product, sigmoid, relu) is its mathematical derivative at every in-domain point (C02_exp ... C02_relu). PARTIAL: the per-operation structure (which element receives which contribution under broadcasting, overlapping conv windows, several summed dimensions, all transpose combinations, additive term) is decided on every run: gradients of single-operation programs with non-uniform seeds are compared with the forward-mode reference built from the specification operations, exhaustively over small shape grids and randomly beyond." + TIE,
        "note": COMMON_NOTE + " HasDerivAt is about the reals; the code evaluates libm in floats.",
        "technique": "Lean 4 + Mathlib proof of the scalar derivative table; differential check of per-operation Jacobian-transpose structure against dual numbers",
    },
    "C03": {
        "text": "Proved: whatever flatten_to returns has exactly the requested dimensions (C03_flatten_dims); in the delivery loop every contribution - the first and every later one - is passed through flatten_to with the operand's own dimensions before it is stored or added (C03_every_contribution_reduced, C03_first_contribution). PARTIAL: that the reduced delta is the sum over the broadcast positions (sumBroadcast) is decided on every run: for every broadcast-compatible shape pair (exhaustive rank<=3/4) with 1-3 uses of the broadcast operand, gradient dimensions and values are compared with the forward-mode reference." + TIE,
        "note": COMMON_NOTE,
        "technique": "Lean 4 proof about the delivery loop and flatten_to's result shape; differential check of values",
    },
    "C04": {
        "text": "Proved in full, for all ranks and sizes: element_wise_dimensions returns the pairwise maximum of the right-aligned dimensions exactly when they are pairwise equal or 1 and refuses every other pair (C04_dims); add, sub, mul, div, axpy on incompatible shapes panic and never return values (C04_refuse, C04_refuse_ops); for well-formed operands of rank >= 1 with compatible dimensions every element-wise operation returns the tensor with the pairwise-maximum dimensions whose element at each multi-index is f of the operands' elements at the projected index (index 0 along broadcast dimensions) - C04_ewise, instantiated for add, mul, div, sub (a + b*(-1)) and axpy (x*alpha + y). The proof goes through the general sliced_op lemma (slicedOp_loop / slicedOp_single) and row-major index algebra. The ewise family compares model, specification and implementation exhaustively for every ordered shape pair of rank<=3 size<=2 (quick) / rank<=4 size<=3 (thorough, 14,400 pairs) x 5 ops, randomly to rank 5." + TIE,
        "note": COMMON_NOTE,
        "technique": "Lean 4 proof: model ewise = index-function specification for all shapes (induction over dimension lists, omega); exhaustive differential check ties the model to the Rust code",
    },
    "C05": {
        "text": "Proved: one entry of the per-batch product is the additive-term value plus the sum over the inner index of the transposed-indexed products, for all sizes and both flags (C05_entry). PARTIAL: batching/broadcast of leading dimensions, shape derivation, rank-1 conventions and refusals are decided on every run against specMatmul over the grid (leading patterns up to 2 dims each side) x (m,k,n) x 4 transposes x 5 additive-term forms, rank-1 forms and inner mismatches." + TIE,
        "note": COMMON_NOTE,
        "technique": "Lean 4 proof of the inner loop; differential check against the sum-over-k specification",
    },
    "C06": {
        "text": "Proved: conv refuses fewer than three dimensions, a filter larger than the image and a zero stride (C06_refuse_rank, C06_refuse_size); the specification's output dimensions are [batch..,count,(rows-fr)/sr+1,(cols-fc)/sc+1] (C06_spec_dims). PARTIAL: the sliding-window value formula for every batch size, overlapping / uneven strides is decided on every run against specConv (direct triple sum) over a grid of image/filter/stride/batch configurations." + TIE,
        "note": COMMON_NOTE,
        "technique": "Lean 4 proof of refusals; differential check against the direct sliding-window specification",
    },
    "C07": {
        "text": "Proved for all shapes/values: reshape keeps the row-major values under the new dimensions iff the element count matches and every dimension is >= 1, and refuses otherwise (C07_reshape, C07_reshape_refuses); negation, scaling, powf, ln, exp, reciprocal, relu, sigmoid keep the dimensions and map every value (C07_maps, C07_neg_ring); sum(k) for every 1 <= k <= rank of every well-formed array collapses the last k dimensions into one unit dimension holding the sums of the trailing blocks (C07_sum, C07_sum_dims, via the general sliced_op lemma); sum(0) is the identity, sum_all the total. PARTIAL: softmax's row normalisation (a composition of exp, sum(1) and a broadcast division, each proved) is not stated as one theorem and its 'rows sum to one' is a statement about reals, not floats; it is decided on every run against specSoftmax." + TIE,
        "note": COMMON_NOTE + " In floats a softmax row sums to one only up to rounding.",
        "technique": "Lean 4 proofs (definitional + constructor theorem); differential check of sum(k)/softmax against the specification",
    },
    "C08": {
        "text": "Proved in full on the model: for EVERY command of the language (construction, every forward operation, flag setters, clone/drop/re-bind, backward with its accumulation, gradient fetch/clear/set, optimizer and model updates, layer/model forward, ...) and every state, every buffer that existed before still exists with the same content (C08_step, by cases over all 66 commands via frame lemmas for each handle-level operation), hence after ANY history (C08_history, induction over the command list); a handle denotes a function of its dimensions and its buffer's content only, so every valid handle - live name, clone, reshaped view, operand recorded in a graph, previously fetched gradient - denotes the same dims and values after any history (C08_handle_stable, C08_immutable); update replaces parameters by new arrays and leaves old buffers alone (C08_update_fresh); views add no buffer (C08_view). On every run the harness keeps a bitwise copy of every live handle taken when it was bound and compares all of them after every command of random histories incl. views, clones, fetched gradients, seeds passed as clones, optimizer updates - an oracle on the implementation that needs no model and is the only decisive observable of this check." + TIE,
        "note": COMMON_NOTE + " Safe Rust's aliasing rules make 'append-only buffers' faithful; gradient-cell buffer sharing is observed by the harness, not modelled.",
        "technique": "Lean 4 proof: every command only extends the buffer array (case analysis over the command language + induction over histories); implementation-side bitwise shadow-copy oracle",
    },
    "C09": {
        "text": "Proved: the iff rule for every element-wise and unary operation and for matmul including its additive term (result tracked iff some operand tracked; an untracked result stores no operand) (C09_iff_ewise, C09_iff_unary, C09_iff_matmul); a completed pass changes gradient cells only at nodes reachable from the root through operands that were tracked when used - nothing below an untracked stored operand (C09_only); the pass leaves the name environment and every recorded node, hence every flag, unchanged (C09_flags_kept); a flag setter rebinds one name only (C09_clone_local). Every flag assignment (6 ways of setting) of every operation, untracked intermediates, start/stop return values before and after passes, stored-operand flags (probe hook) and plainness of fetched gradients are compared on every run." + TIE,
        "note": COMMON_NOTE + " Gradients are plain arrays by construction in the by-value model; the tie checks it on the implementation.",
        "technique": "Lean 4 proofs (allocation lemmas, counting theorem, frame lemma) + differential flag/gradient-presence checks",
    },
    "C10": {
        "text": 'Proved for every well-founded graph and every root/seed: a completed pass from a clean state ends clean (C10_clean), any sequence of passes keeps the state clean (C10_clean_history), and - with closures as in C01 - after ANY list of passes (same result again, interior node then containing result, shared sub-graphs) every gradient coordinate equals its starting value plus the sum of the path sums of the individual passes, i.e. what each pass would have added alone, independent of what ran before (C10_additive); the gradient cell is only changed by adding the entering delta (C10_store_adds). On every run: pass sequences (2-4 passes, optional clear) next to one fresh program instance per pass, `sumgrad` compares the accumulated gradient with the sum of the single-pass gradients on the implementation itself; counters and pending flags of every node are probed after every pass.' + TIE,
        "note": COMMON_NOTE,
        "technique": 'Lean 4 proof: clean-to-clean (counting theorem) + additive accumulation over pass lists (path-sum theorem, induction over the list); metamorphic accumulation check on the implementation',
    },
    "C11": {
        "text": 'Proved for every well-founded graph (any fan-out, diamonds, self-product chains) with lawful closures: in a completed pass the log of node entries has no duplicates and is exactly the set of nodes reachable through tracked operands (C11_once), every node is entered after all its consumers in the graph (C11_after), and the number of entries is the number of distinct reachable nodes whatever the number of paths (C11_linear_work). That the delta a node is entered with is the complete adjoint follows from the path-sum theorem of C01 (all contributions are merged before entry, entry happens once). On every run the invocation log of user closures given to Array::op (label, received delta) is compared as a sorted list, incl. exhaustive small DAGs and chains with 2^45..2^60 paths, with a timeout that flags path-exponential work.' + TIE,
        "note": COMMON_NOTE,
        "technique": 'Lean 4 proof of exactly-once / consumers-first by a counting invariant generalised over pending deliveries; differential invocation-log check',
    },
    "C12": {
        "text": "Proved: a clone is the same handle under another name (C12_clone_is_handle); every operation and the backward pass are functions of the heap and the operand handles only - under any other name environment (operands replaced by clones, handles dropped, variables re-bound, pass started from a clone) they return the same result and make the same heap change (C12_op_ignores_names, C12_unary_ignores_names, C12_pass_ignores_names); gradients are read through the node id that clones share (C12_shared_grad); drop changes nothing but the environment (C12_drop). On every run each random program is executed next to an edited twin and all values/gradients must coincide (metamorphic, decided on the implementation's own outputs)." + TIE,
        "note": COMMON_NOTE + " That Rust's Clone shares all five Rc fields is exactly what the metamorphic correspondence tests.",
        "technique": "Lean 4 proofs of name-environment independence + metamorphic differential check",
    },
    "C13": {
        "text": "Proved in full on the model, for every parameter list (any count, shapes, frozen subset): with pairwise distinct parameter nodes, valid handles and gradients of their parameter's length (C03), update succeeds and - read in the final state - a parameter without a gradient keeps its handle; a parameter with gradient g becomes a fresh leaf (no stored operands, no gradient, new buffer) of the same dimensions with both flags set whose values are old - lr*g element by element (C13_update: gather = concatenations in order (gdGather_spec), the positional step distributes over aligned blocks (C13_step_blocks), drain hands each parameter its own block (gdDrain_spec, drainSpec_ok)); the parameters' gradients are taken and no other gradient cell is touched (C13_gradients_cleared, C13_other_gradients_kept); without the alignment the positional drain is wrong (decide-checked counterexample). On every run: every frozen subset of 1-4 parameters, random lists of 1-6, repeated updates through fresh optimizers and through one reused GradientDescent object, compared with the per-parameter formula." + TIE,
        "note": COMMON_NOTE,
        "technique": "Lean 4 proof: update refines a per-parameter specification (induction over the parameter list with heap-extension lemmas); differential check against the per-parameter SGD formula",
    },
    "C14": {
        "text": "Proved: the backward pass of an iteration ends with clean counters/pending deltas whatever ran before (C14_no_leak); a parameter created by update is a fresh leaf with a new buffer, no stored operands and no gradient (C14_fresh_parameter). PARTIAL: the per-iteration value claim (loss of current parameters; parameters move by -lr * exact gradient) is decided on every run: after every iteration of random dense/conv models (activations, both costs, batches incl. unbatched, 1-5 iterations) the loss is compared with the cost formula on the specification forward, and the updated parameters with old - lr * forward-mode gradient." + TIE,
        "note": COMMON_NOTE,
        "technique": "Lean 4 composition lemmas; differential check per iteration against spec forward + dual-number gradient + SGD formula",
    },
    "C15": {
        "text": "Proved (by unfolding the model): a dense layer is matmul(x, W^T, bias) then activation (C15_dense), a conv layer is conv + broadcast bias then activation (C15_conv), mse is (target-output)^2 * 1/count (C15_mse, C15_mse_ring), cross-entropy is -target*ln(output) * 1/leading dimension (C15_xent). Values of layer forwards, model forward and the loss are compared on every run with the specification formulas (specMatmul, specConv, specEwise, specSoftmax)." + TIE,
        "note": COMMON_NOTE,
        "technique": "Lean 4 unfolding theorems; differential check against reference formulas",
    },
    "C16": {
        "text": "Proved in Lean for all dimension lists and value lists (any rank, any size): the constructor accepts exactly well-formed (dims, values) and stores them unchanged; flat/zeros/nested constructors; nested element (i::idx) is element idx of part i; flatten_indices equals the row-major position for every in-range multi-index; rowMajor/unflatten are mutually inverse (row-major layout); flat indexing; equality iff dims and values equal. The construct family compares the model with the real crate on every rank<=4 shape, every index, nesting, and a malformed stream." + TIE,
        "note": COMMON_NOTE + " Rank-0 arrays are outside the quantifier.",
        "technique": "Lean 4 proofs (index algebra by induction, omega); exhaustive differential check over small shapes",
    },
    "C17": {
        "text": "Proved: backward without a seed is the same computation as backward with a seed of ones (C17_default, C17_ones_exists); the gradient change is additive in the seed - the change for s1+s2 is the sum of the changes for s1 and s2 (C17_additive, from additivity of the path sum) - and homogeneous - the change for alpha*s is alpha times the change for s whenever every operation's contribution commutes with scaling by alpha (C17_homogeneous; true of closures that are linear in the delta); together: linearity. On every run, three fresh instances of random programs are run with s1, s2 and alpha*s1+beta*s2 and alpha*g1+beta*g2 = g3 is checked cell by cell on the implementation's own outputs (exact integers), plus omitted seed vs explicit ones." + TIE,
        "note": COMMON_NOTE,
        "technique": 'Lean 4 proof: additivity and homogeneity of the path sum (corollaries of the path-sum theorem); metamorphic linearity check',
    },
    "C18": {
        "text": "Proved: who owns a buffer is determined by live names, layers, model outputs and recorded nodes only - a backward pass with its pending deltas and stored gradients, and gradient read/clear/set, change no owner count (C18_pass_holds_nothing, C18_grad_ops_hold_nothing); no roots means no owners (C18_no_roots_no_owners). On every run: random programs are built and differentiated, every derived result is dropped in random order, Rc owner counts (probe hook) are compared with the model after every drop, and Vec::from must succeed on every leaf, with and without stored gradients; in training runs the previous iteration's input is owned again after the next forward." + TIE,
        "note": COMMON_NOTE + " Reachable references = Rc strong count (no cycles, no Weak) is assumed and compared numerically on every probe; gradient-cell aliasing is not modelled.",
        "technique": "Lean 4 frame lemmas over a reachability-based ownership model + differential Rc-count / sole-owner checks",
    },
    "C19": {
        "text": "Proved: acceptance and resulting dimensions of construction depend on the dimensions and the value count only, for any two scalar types (C19_mk_scalar_independent); broadcast shape and refusal are functions of the dimensions only (C19_ewise_dims). PARTIAL: 'agreement to within single-precision rounding' is validated by differential runs only: the C01-C07 families are re-run against a second harness built with --features f32, exactly on integers below 2^21 against the Rat model and under a 2e-4 tolerance against Lean Float32 on arbitrary data; shapes, flags and panics are compared exactly." + TIE,
        "note": COMMON_NOTE + " Lean has no account of IEEE rounding here; the value half is differential only.",
        "technique": "Lean 4 scalar-independence lemmas; differential re-run of the families against the f32 build",
    },
}

NOT_YET = {}
