#!/usr/bin/env python3
"""developer aid: run one generator family against harness + model and print the first findings.
usage: runfam.py <family-fn> [tier] [mode] [n] [grads]"""
import random, sys, os
sys.path.insert(0, os.path.dirname(os.path.abspath(__file__)))
import gen, check, families
name = sys.argv[1]; tier = sys.argv[2] if len(sys.argv) > 2 else "quick"; mode = sys.argv[3] if len(sys.argv) > 3 else "exact"
n = int(sys.argv[4]) if len(sys.argv) > 4 else 50
kw = {}
if len(sys.argv) > 5: kw["grads"] = sys.argv[5] == "1"
variant = os.environ.get("VARIANT", "f64")
rng = random.Random(int(os.environ.get("VERIF_SEED", "1")))
f = getattr(gen, name)
try:
    cases = f(rng, n, tier, mode=mode, **kw)
except TypeError:
    cases = f(rng, n, tier)
check.build_harness(variant)
tol = families.TOL["f32" if variant == "f32" and mode != "exact" else mode]
from concurrent.futures import ThreadPoolExecutor
chunks = [cases[i:i+40] for i in range(0, len(cases), 40)]
with ThreadPoolExecutor(16) as ex:
    res = [r for rs in ex.map(lambda ch: check.run_cases(ch, mode, variant, tol), chunks) for r in rs]
kinds = {}
shown = 0
spec = 0
for c, fs in zip(cases, res):
    for fd in fs:
        kinds[fd[0]] = kinds.get(fd[0], 0) + 1
        if fd[0] != "inexact" and shown < int(os.environ.get("SHOW", "4")):
            shown += 1
            print("----", fd[0], "at", fd[1], c.key)
            for l in c.lines[:fd[1]+1]: print("   ", l)
            print("  impl :", fd[2][:300]); print("  model:", fd[3][:300]); print("  spec :", (fd[4] or "")[:300])
print(len(cases), "cases,", sum(len(c.lines) for c in cases), "commands; findings:", kinds)
