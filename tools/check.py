#!/usr/bin/env python3
"""check.py — decide one property:  build the proof, audit it, rebuild the harness from /repo's
working tree, run the correspondence families (implementation vs Lean model vs executable spec),
apply the violation protocol, write evidence.   Usage:  check.py Cxx [--tier quick|thorough]
[--replay file] | --setup"""
import fcntl
import hashlib
import json
import os
import random
import re
import struct
import subprocess
import sys
import time
import threading
from concurrent.futures import ThreadPoolExecutor

ROOT = os.path.dirname(os.path.dirname(os.path.abspath(__file__)))
sys.path.insert(0, os.path.join(ROOT, "tools"))
import gen  # noqa: E402
import families  # noqa: E402

LEAN = os.path.join(ROOT, "lean")
HARNESS = os.path.join(ROOT, "harness")
WORK = os.path.join(ROOT, "work")
REPLAYS = os.path.join(ROOT, "replays")
EVID = os.path.join(ROOT, "evidence")
MODEL_BIN = os.path.join(LEAN, ".lake", "build", "bin", "corgi_model")
ENV = dict(os.environ, CARGO_NET_OFFLINE="true")
AXIOM_WHITELIST = {"propext", "Classical.choice", "Quot.sound"}
FORBIDDEN = re.compile(r"\bsorry\b|\badmit\b|^\s*axiom\s|native_decide|bv_decide|implemented_by|\bunsafe\s|maxHeartbeats\s+0")


def sh(cmd, cwd=None, timeout=None, env=None):
    p = subprocess.run(cmd, cwd=cwd, env=env or ENV, stdout=subprocess.PIPE, stderr=subprocess.STDOUT,
                       timeout=timeout, universal_newlines=True)
    return p.returncode, p.stdout


class Lock:
    def __init__(self, name):
        os.makedirs(os.path.join(ROOT, "work"), exist_ok=True)
        self.path = os.path.join(ROOT, "work", name + ".lock")

    def __enter__(self):
        self.f = open(self.path, "w")
        fcntl.flock(self.f, fcntl.LOCK_EX)

    def __exit__(self, *a):
        fcntl.flock(self.f, fcntl.LOCK_UN)
        self.f.close()


# ------------------------------------------------------------------ proof side

def build_lean(module):
    with Lock("lake"):
        rc, out = sh(["lake", "build", module, "corgi_model"], cwd=LEAN, timeout=3000)
    return rc == 0, out


def strip_comments(src):
    src = re.sub(r"/-.*?-/", "", src, flags=re.S)
    return "\n".join(l.split("--")[0] for l in src.splitlines())


def lean_imports(path, seen):
    """transitive closure of project-local imports of a .lean file"""
    if path in seen or not os.path.exists(path):
        return
    seen.add(path)
    for m in re.findall(r"^import\s+(\S+)", open(path).read(), flags=re.M):
        if m.split(".")[0] in ("CorgiModel", "CorgiSpec", "CorgiProofs", "CorgiProps"):
            lean_imports(os.path.join(LEAN, m.replace(".", "/") + ".lean"), seen)


def audit(pid):
    """forbidden constructs in everything the property file imports + `#print axioms` whitelist"""
    path = os.path.join(LEAN, "CorgiProps", pid + ".lean")
    files = set()
    lean_imports(path, files)
    problems = []
    for f in sorted(files):
        for i, line in enumerate(strip_comments(open(f).read()).splitlines(), 1):
            if FORBIDDEN.search(line):
                problems.append("%s:%d: %s" % (os.path.relpath(f, LEAN), i, line.strip()))
    with Lock("lake"):
        rc, out = sh(["lake", "env", "lean", path], cwd=LEAN, timeout=3000)
    theorems = {}
    for m in re.finditer(r"'([^']+)' depends on axioms: \[([^\]]*)\]", out):
        theorems[m.group(1)] = [a.strip() for a in m.group(2).replace("\n", " ").split(",") if a.strip()]
    for m in re.finditer(r"'([^']+)' does not depend on any axioms", out):
        theorems[m.group(1)] = []
    declared = re.findall(r"^#print axioms\s+(\S+)", open(path).read(), flags=re.M)
    ok = rc == 0
    for t in declared:
        if t not in theorems:
            problems.append("theorem %s: no axiom report (file did not elaborate it)" % t)
    for t, ax in theorems.items():
        extra = [a for a in ax if a not in AXIOM_WHITELIST]
        if extra:
            problems.append("theorem %s depends on non-whitelisted axioms %s" % (t, extra))
    if rc != 0:
        problems.append("lean exited %d on %s:\n%s" % (rc, os.path.basename(path), out[-2000:]))
    return ok and not problems, theorems, declared, problems, sorted(os.path.relpath(f, LEAN) for f in files)


# ------------------------------------------------------------------ implementation side

def harness_bin(variant):
    # tools/coverage.sh measures which lines of /repo/src the families execute with an instrumented build
    if variant != "f32" and os.environ.get("VERIF_COV_BIN"):
        return os.environ["VERIF_COV_BIN"]
    return os.path.join(HARNESS, "target-f32" if variant == "f32" else "target", "debug", "corgi-harness")


def build_harness(variant="f64"):
    cmd = ["cargo", "build", "--offline"]
    env = dict(ENV)
    if variant == "f32":
        cmd += ["--features", "f32"]
        env["CARGO_TARGET_DIR"] = os.path.join(HARNESS, "target-f32")
    else:
        env["CARGO_TARGET_DIR"] = os.path.join(HARNESS, "target")
    with Lock("cargo-" + variant):
        rc, out = sh(cmd, cwd=HARNESS, timeout=3000, env=env)
    return rc == 0, out


class HarnessTimeout(Exception):
    pass


TIMEOUTS = []


def run_both(lines, mode, variant="f64", timeout=1200, nospec=False):
    """run the same command text through the harness and through the model"""
    text = "\n".join(lines) + "\n"
    hmode = "exact" if mode == "exact" else "float"
    mmode = {"exact": "exact", "float": "float", "f32": "f32"}[mode if variant != "f32" or mode == "exact" else "f32"]
    # `nospec`: the model without the forward-mode reference (families whose cases are too large for one
    # reference evaluation per input element; implementation and model are still compared line by line)
    pm = subprocess.run([MODEL_BIN, mmode] + (["nospec"] if nospec else []), input=text, stdout=subprocess.PIPE, stderr=subprocess.PIPE,
                        universal_newlines=True, timeout=400)
    try:
        pi = subprocess.run([harness_bin(variant), hmode], input=text, stdout=subprocess.PIPE, stderr=subprocess.PIPE,
                            universal_newlines=True, timeout=timeout)
    except subprocess.TimeoutExpired:
        raise HarnessTimeout()
    return pi.stdout.splitlines(), pm.stdout.splitlines(), pi.returncode, pm.returncode, pi.stderr[-500:], pm.stderr[-500:]


# ------------------------------------------------------------------ comparison

RAT = re.compile(r"^-?\d+(/\d+)?$")


def representable(tok, bits):
    """is this exact rational a float of the build's width, with room to spare?"""
    # m * 2^e with an odd mantissa m of fewer than `bits` bits and an exponent well inside the format's range
    emax = 900 if bits > 30 else 100
    if "/" in tok:
        n, d = tok.split("/")
        n, d = abs(int(n)), int(d)
        if d & (d - 1) or d.bit_length() - 1 > emax:
            return False
        return n < (1 << bits)          # n is odd here (the fraction is in lowest terms)
    n = abs(int(tok))
    if n == 0:
        return True
    tz = (n & -n).bit_length() - 1
    return (n >> tz) < (1 << bits) and tz <= emax


def line_representable(line, bits=50):
    return all(representable(t, bits) for t in line.replace("=", " ").split() if RAT.match(t) and ("/" in t or len(t) > 5))


def hexval(tok):
    h = tok[1:]
    if len(h) == 16:
        return struct.unpack("<d", struct.pack("<Q", int(h, 16)))[0]
    return struct.unpack("<f", struct.pack("<I", int(h, 16)))[0]


HEX = re.compile(r"^x[0-9a-f]{8}([0-9a-f]{8})?$")
NONFINITE = re.compile(r"\bx[7f]ff[0-9a-f]{13}\b|\bx[7f]f[89a-f][0-9a-f]{5}\b")


def tok_close(a, b, tol):
    if a == b:
        return True
    if HEX.match(a) and HEX.match(b):
        x, y = hexval(a), hexval(b)
        if x != x and y != y:
            return True
        if x != x or y != y:
            return False
        if x in (float("inf"), float("-inf")) or y in (float("inf"), float("-inf")):
            return x == y
        if tol < 0:
            # relative comparison (families of single operations at extreme magnitudes, where there is
            # no cancellation and an absolute floor would hide a wrong tiny or huge result)
            return abs(x - y) <= (-tol) * (abs(x) + abs(y))
        return abs(x - y) <= tol * (1.0 + abs(x) + abs(y))
    return False


def lines_agree(a, b, mode, tol):
    if a == b:
        return True
    if mode == "exact":
        return False
    ta, tb = a.replace("=", " = ").split(), b.replace("=", " = ").split()
    return len(ta) == len(tb) and all(tok_close(x, y, tol) for x, y in zip(ta, tb))


OPS_SHOWING_TENSOR = {"act", "new", "flat", "zeros", "nest", "add", "sub", "mul", "div", "neg", "ln", "exp", "recip", "relu", "sigmoid",
                      "softmax", "scale", "powf", "sum", "reshape", "axpy", "matmul", "conv", "cop", "lfwd", "fwd", "takegrad", "show"}


def trflag(line):
    m = re.search(r"tr=([01])", line)
    return m.group(1) if m else "?"


def kv(line, keys):
    return " ".join("%s=%s" % (k, (re.search(r"\b%s=(\S+)" % k, line) or [None, "?"])[1]) for k in keys)


def view_full(cmd, out):
    return out


def view_values(cmd, out):
    """C01-C07, C14, C15: dimensions and values (and refusals); the tracking flag shown next to a
    tensor belongs to C09"""
    return re.sub(r" \| tr=[01]", "", out)


def view_flags(cmd, out):
    """C09: only tracking flags, gradient presence, stored-operand flags, sole ownership"""
    w = cmd.split()[0]
    if out in ("PANIC", "-", "BADCMD"):
        return out
    if w == "grad":
        return "none" if out == "none" else "some tr=" + trflag(out)
    if w == "takegrad":
        return "some"
    if w in OPS_SHOWING_TENSOR:
        return "tr=" + trflag(out)
    if w in ("start", "stop", "flags", "nokid"):
        return out
    if w == "probe":
        # an untracked result keeps no reference to its operands; how many operands a tracked result
        # stores is not something the property speaks about
        return kv(out, ["tr", "keep", "kids"]) if "tr=0" in out else kv(out, ["tr", "keep"])
    if w == "probekid":
        return out if out == "nokid" else kv(out, ["tr", "keep"])
    if w == "own":
        return "own"
    return None


def view_shape(cmd, out):
    """C03: dimensions of stored gradients (values are judged by the add/sub family, full view)"""
    w = cmd.split()[0]
    if out in ("PANIC", "-", "BADCMD"):
        return out
    if w == "grad":
        return "none" if out == "none" else "dims " + out.split(" | ")[0]
    if w == "snapshot":
        return " ; ".join("%s g=%s" % (e.split("=")[0], ("none" if e.endswith("g=none") else e.split(" g=")[1].split(" | ")[0]))
                          for e in out[5:].split(" ; ")) if out.startswith("snap ") else out
    return None


def view_cntpend(cmd, out):
    """C10: counters and pending flags after passes; metamorphic accumulation lines"""
    w = cmd.split()[0]
    if out in ("PANIC", "-", "BADCMD"):
        return out
    if w == "probe":
        return kv(out, ["cnt", "pend"])
    if w == "probekid":
        return out if out == "nokid" else kv(out, ["cnt", "pend"])
    if w in ("sumgrad", "samegrad", "same", "lin"):
        return out
    return None


def view_rc(cmd, out):
    """C18: sole-owner extraction (`own`), and owner counts at the points where the model says the
    handle is the sole owner (a count the implementation may only match)"""
    w = cmd.split()[0]
    if out in ("PANIC", "-", "BADCMD"):
        return out if w == "own" else None
    if w == "probe":
        return kv(out, ["rc", "cnt", "pend"])
    if w == "own":
        return "own"
    return None


def view_meta(cmd, out):
    """C12 / C17: only the metamorphic relation lines (the implementation against itself)"""
    w = cmd.split()[0]
    if w in ("same", "samegrad", "lin", "sumgrad"):
        return out
    return None


def view_log(cmd, out):
    """C11: the invocation log of user closures, counters after the pass"""
    w = cmd.split()[0]
    if w == "log":
        return out
    if w == "probe":
        return out if out in ("PANIC", "-") else kv(out, ["cnt", "pend"])
    return None


def view_none(cmd, out):
    """C08: nothing but the harness's own shadow-copy verdict (`!!IMMUT`) is decisive"""
    return None


def view_update(cmd, out):
    """C13: the parameters after an update, their gradients and flags"""
    w = cmd.split()[0]
    if out in ("PANIC", "-", "BADCMD"):
        return out if w in ("gdupdate", "gdstep", "update") else None
    if w in ("gdupdate", "gdstep", "update", "params"):
        return out
    if w == "probe":
        return kv(out, ["tr", "keep", "kids"])
    if w == "show" or w == "snapshot":
        return out
    return None


VIEWS = {"full": view_full, "values": view_values, "flags": view_flags, "shape": view_shape, "cntpend": view_cntpend, "rc": view_rc,
         "meta": view_meta, "log": view_log, "none": view_none, "update": view_update}


SHAPE_TALLY = {}
SHAPE_LOCK = threading.Lock()


def split_spec(line):
    if " @@ shape=" in line:
        # the model's verdict on the hypothesis `ShapeOK` of the path-sum theorem in the state before this pass
        line, cls = line.rsplit(" @@ shape=", 1)
        with SHAPE_LOCK:
            SHAPE_TALLY[cls] = SHAPE_TALLY.get(cls, 0) + 1
    if " ## " in line:
        m, s = line.split(" ## ", 1)
        return m, s
    return line, None


def compare_case(cmds, impl, model, mode, tol, bits=50, view="full"):
    """returns list of findings for one case: (kind, cmd_index, impl_line, model_line, spec).
    Lines are compared through the property's view: what the view drops cannot raise an alarm."""
    nf_ok = "+nf" in view             # families without arithmetic: non-finite values are ordinary data
    vf = VIEWS[view.split("+")[0]]
    out = []
    n = min(len(impl), len(model))
    if len(impl) != len(cmds) or len(model) != len(cmds):
        out.append(("length", min(n, len(cmds)) - 1 if n else 0, "impl lines=%d" % len(impl), "model lines=%d" % len(model), None))
    for i in range(min(n, len(cmds))):
        il = impl[i]
        ml, spec = split_spec(model[i])
        if "!!IMMUT:" in il:
            out.append(("immut", i, il, ml, spec))
            il = il.split(" !!IMMUT:")[0]
        if mode == "exact" and not (line_representable(ml, bits) and (spec is None or line_representable(spec, bits))):
            out.append(("inexact", i, il, ml, spec))
            break
        if mode != "exact" and not nf_ok and (NONFINITE.search(ml) or (spec is not None and NONFINITE.search(spec))):
            # NaN / infinity: the program left the operations' domain; nothing is claimed there
            out.append(("inexact", i, il, ml, spec))
            break
        vi, vm = vf(cmds[i], il), vf(cmds[i], ml)
        vs = vf(cmds[i], spec) if spec is not None else None
        if view == "rc" and vm is not None and vm.startswith("rc=") and not vm.startswith("rc=1 "):
            # not a point where the model claims sole ownership: only "no counter, no pending value" counts
            strip = lambda v: None if v is None else " ".join(v.split()[1:])
            vi, vm, vs = strip(vi), strip(vm), strip(vs)
        if vi is not None and vm is not None:
            im = lines_agree(vi, vm, mode, tol)
            if mode == "exact" or not im:
                # on floats the reference evaluation (forward mode) and the reverse pass may differ through
                # cancellation / overflow of intermediates although implementation and model agree bit for
                # bit: that is conditioning, not structure, and structure is judged on the exact channel
                if vs is not None and not lines_agree(vi, vs, mode, tol):
                    out.append(("impl-vs-spec", i, il, ml, spec))
                if vs is not None and not lines_agree(vm, vs, mode, tol) and mode == "exact":
                    out.append(("model-vs-spec", i, il, ml, spec))
            elif vs is not None and not lines_agree(vm, vs, mode, tol):
                out.append(("ill-conditioned", i, il, ml, spec))
            if not im:
                out.append(("impl-vs-model", i, il, ml, spec))
        if il == "PANIC" or ml == "PANIC":
            break
    return out


def run_cases(cases, mode, variant, tol, view="full"):
    """run a batch of cases in one process pair; returns per-case findings"""
    lines = []
    spans = []
    for c in cases:
        lines.append("case")
        start = len(lines)
        lines.extend(c.lines)
        spans.append((start, len(lines)))
    try:
        impl, model, rci, rcm, ei, em = run_both(lines, mode, variant, timeout=(6 if len(cases) == 1 else 30), nospec=("+nospec" in view))
    except HarnessTimeout:
        # the implementation did not finish although the model did: find the case(s), one by one
        if len(cases) == 1:
            TIMEOUTS.append(1)
            return [[("timeout", len(cases[0].lines) - 1, "implementation still running after 6 s (the model finished in milliseconds)", "model finished", None)]]
        if len(TIMEOUTS) >= 3:
            # enough hanging cases have been isolated already in this run
            return [[("timeout", len(c.lines) - 1, "chunk timed out (not isolated further)", "model finished", None)] if i == 0 else []
                    for i, c in enumerate(cases)]
        out = []
        for c in cases:
            out.extend(run_cases([c], mode, variant, tol, view))
        return out
    results = []
    crashed = (rci != 0 or rcm != 0 or len(impl) != len(lines) or len(model) != len(lines))
    if crashed:
        # a process died (abort, stack overflow …): bisect by running the cases one by one
        if len(cases) == 1:
            c = cases[0]
            i1, m1 = impl[1:], model[1:]
            f = compare_case(c.lines, i1, m1, mode, tol, 21 if variant == "f32" else 50, view)
            if rci != 0 or rcm != 0:
                f.append(("crash", max(0, min(len(i1), len(m1)) - 1), "harness rc=%d %s" % (rci, ei), "model rc=%d %s" % (rcm, em), None))
            return [f]
        out = []
        for c in cases:
            out.extend(run_cases([c], mode, variant, tol, view))
        return out
    for c, (s, e) in zip(cases, spans):
        results.append(compare_case(c.lines, impl[s:e], model[s:e], mode, tol, 21 if variant == "f32" else 50, view))
    return results


def shrink(case, mode, variant, tol, kind, view="full", orig=None):
    """greedy line removal keeping a finding of the same kind on the same command, with the same
    panicked / did-not-panic status on both sides (so that removing a definition does not count)"""
    lines = list(case.lines)
    target = case.lines[orig[1]] if orig is not None and orig[1] < len(case.lines) else None
    status = (orig[2] == "PANIC", orig[3] == "PANIC") if orig is not None else None

    def keeps(f, trial):
        for x in f:
            if x[0] != kind:
                continue
            if target is None:
                return True
            if x[1] < len(trial) and trial[x[1]] == target and (x[2] == "PANIC", x[3] == "PANIC") == status:
                return True
        return False
    budget = 80
    i = len(lines) - 1
    while i >= 0 and budget > 0:
        trial = lines[:i] + lines[i + 1:]
        if trial and (target is None or lines[i] != target):
            budget -= 1
            c2 = gen.Case(trial, case.key, case.tags, case.mode)
            f = run_cases([c2], mode, variant, tol, view)[0]
            if keeps(f, trial):
                lines = trial
        i -= 1
    return lines


# ------------------------------------------------------------------ driver

def write_replay(pid, family, mode, variant, lines, finding, note):
    os.makedirs(REPLAYS, exist_ok=True)
    h = hashlib.sha1(("\n".join(lines) + finding[0]).encode()).hexdigest()[:12]
    path = os.path.join(REPLAYS, "%s-%s.cmds" % (pid, h))
    with open(path, "w") as f:
        f.write("# property %s  family %s  mode %s  variant %s\n" % (pid, family, mode, variant))
        f.write("# %s\n" % note)
        f.write("# finding: %s at command %d\n" % (finding[0], finding[1]))
        f.write("#   implementation: %s\n" % finding[2])
        f.write("#   model         : %s\n" % finding[3])
        if finding[4] is not None:
            f.write("#   specification : %s\n" % finding[4])
        f.write("# replay: ./check %s --replay %s\n" % (pid, path))
        f.write("#mode %s %s\n" % (mode, variant))
        f.write("case\n")
        for l in lines:
            f.write(l + "\n")
    return path


def replay(pid, path):
    mode, variant = "exact", "f64"
    lines = []
    for l in open(path):
        l = l.rstrip("\n")
        if l.startswith("#mode"):
            parts = l.split()
            mode, variant = parts[1], parts[2]
        elif l.startswith("#") or not l.strip():
            continue
        else:
            lines.append(l)
    ok, out = build_harness(variant)
    if not ok:
        print(out[-3000:])
        return 1
    build_lean("CorgiProps." + pid)
    impl, model, rci, rcm, ei, em = run_both(lines, mode, variant)
    bad = 0
    for i, l in enumerate(lines):
        il = impl[i] if i < len(impl) else "<missing>"
        ml = model[i] if i < len(model) else "<missing>"
        mm, spec = split_spec(ml)
        agree = lines_agree(il.split(" !!IMMUT:")[0], mm, mode, families.TOL[mode]) and "!!IMMUT" not in il
        sagree = spec is None or lines_agree(il.split(" !!IMMUT:")[0], spec, mode, families.TOL[mode])
        flag = "   " if agree and sagree else "***"
        if not (agree and sagree):
            bad += 1
        print("%s %s" % (flag, l))
        print("      impl : %s" % il)
        print("      model: %s" % mm)
        if spec is not None:
            print("      spec : %s" % spec)
    print("replay: %d differing line(s)" % bad)
    return 1 if bad else 0


def main():
    args = sys.argv[1:]
    if args and args[0] == "--setup":
        ok, out = build_lean("CorgiProps")
        if not ok:
            print(out[-6000:])
            return 1
        for v in ("f64", "f32"):
            ok, out = build_harness(v)
            if not ok:
                print(out[-6000:])
                return 1
        print("setup ok")
        return 0
    pid = args[0]
    tier = os.environ.get("VERIF_TIER", "quick")
    if "--tier" in args:
        tier = args[args.index("--tier") + 1]
    if "--replay" in args:
        return replay(pid, args[args.index("--replay") + 1])
    seed = int(os.environ.get("VERIF_SEED", "20260930"))
    t0 = time.time()
    cfg = families.PROPS[pid]
    known = json.load(open(os.path.join(ROOT, "known_findings.json")))
    violations = []     # (replay_path, suffix)
    notes = []

    # 1. proof
    lean_ok, lean_out = build_lean("CorgiProps." + pid)
    audit_ok, theorems, declared, problems, files = audit(pid)
    proof_ok = lean_ok and audit_ok
    if tier == "thorough" and lean_ok:
        # independent re-check of the compiled property module by the toolchain's `leanchecker`
        with Lock("lake"):
            rc, out = sh(["lake", "env", "leanchecker", "CorgiProps." + pid], cwd=LEAN, timeout=3000)
        if rc != 0:
            proof_ok = False
            problems.append("leanchecker rejected CorgiProps.%s: %s" % (pid, out[-800:]))
        else:
            notes.append("leanchecker re-checked CorgiProps.%s (rc 0)" % pid)
    if not proof_ok:
        notes.append("proof obligation broken: " + "; ".join(problems)[:1500] + ("" if lean_ok else "\n" + lean_out[-1500:]))

    # 2. implementation
    variants = cfg.get("variants", ["f64"])
    for v in variants:
        ok, out = build_harness(v)
        if not ok:
            os.makedirs(REPLAYS, exist_ok=True)
            path = os.path.join(REPLAYS, "%s-harness-build.txt" % pid)
            open(path, "w").write("the correspondence harness no longer builds against /repo (variant %s); "
                                  "correspondence families %s of %s cannot run\n\n%s" %
                                  (v, [f["name"] for f in cfg["families"]], pid, out[-6000:]))
            print("VIOLATION property=%s replay=%s no-failing-input-found" % (pid, path))
            write_evidence(pid, tier, seed, cfg, theorems, declared, proof_ok, {}, [], 1, t0, files, ["harness build failed"])
            return 1

    # 3. correspondence
    corr = {}
    samples = []
    model_ok = os.path.exists(MODEL_BIN)
    for fam in cfg["families"]:
        name = fam["name"]
        budget = fam[tier]
        rng = random.Random((seed * 1000003) ^ int(hashlib.sha1((pid + name).encode()).hexdigest()[:8], 16))
        cases = fam["gen"](rng, budget, tier)
        mode = fam.get("mode", "exact")
        variant = fam.get("variant", "f64")
        tol = families.TOL["f32" if variant == "f32" and mode != "exact" else mode]
        if fam.get("relative"):
            tol = -tol
        stats = {"cases": len(cases), "commands": sum(len(c.lines) for c in cases), "mode": mode, "variant": variant,
                 "impl_vs_model_disagreements": 0, "impl_vs_spec_failures": 0, "model_vs_spec_disagreements": 0,
                 "immutability_failures": 0, "inexact_discarded": 0, "crashes": 0, "spec_lines_checked": 0,
                 "panic_cases": 0, "tags": {}}
        keys = set()
        for c in cases:
            for t in c.tags:
                stats["tags"][t] = stats["tags"].get(t, 0) + 1
            if c.nontrivial:
                keys.add(repr(c.key))
        stats["distinct_nontrivial"] = len(keys)
        stats["rule"] = fam.get("rule", "distinct generator keys (shape / graph / parameter tuples), trivial ones excluded")
        if not model_ok:
            corr[name] = stats
            continue
        view = fam.get("view", "full")
        kinds_ok = fam.get("kinds", ["impl-vs-spec", "impl-vs-model", "model-vs-spec", "immut", "crash", "length"])
        stats["view"] = view
        chunks = [cases[i:i + 40] for i in range(0, len(cases), 40)]
        with ThreadPoolExecutor(max_workers=min(16, max(1, len(chunks)))) as ex:
            results = list(ex.map(lambda ch: run_cases(ch, mode, variant, tol, view), chunks))
        flat = [r for rs in results for r in rs]
        if fam.get("baseline_variant"):
            # a defect that shows in the reference build as well is not specific to this build:
            # only findings that the reference build does not share count here
            bv = fam["baseline_variant"]
            btol = families.TOL[mode if mode != "f32" else "float"]
            if fam.get("relative"):
                btol = -btol
            bmode = "float" if mode == "f32" else mode
            bchunks = chunks
            if mode == "f32":
                # the same numbers (every f32 is an f64) written as f64 bit patterns
                def widen(line):
                    return re.sub(r"\bx([0-9a-f]{8})\b", lambda m: gen.fhex(struct.unpack("<f", struct.pack("<I", int(m.group(1), 16)))[0]), line)
                bchunks = [[gen.Case([widen(l) for l in c.lines], c.key, c.tags, "float", c.nontrivial) for c in ch] for ch in chunks]
            if True:
                with ThreadPoolExecutor(max_workers=min(16, max(1, len(chunks)))) as ex:
                    bres = [r for rs in ex.map(lambda ch: run_cases(ch, bmode, bv, btol, view), bchunks) for r in rs]
                filtered = []
                shared = 0
                for fs, bs in zip(flat, bres):
                    bset = {(x[0], x[1]) for x in bs}
                    keep = [x for x in fs if x[0] == "inexact" or (x[0], x[1]) not in bset]
                    shared += len(fs) - len(keep)
                    filtered.append(keep)
                flat = filtered
                stats["findings_shared_with_reference_build"] = shared
        first = {}
        for c, findings in zip(cases, flat):
            for f in findings:
                k = f[0]
                if k == "ill-conditioned":
                    stats["float_cases_where_reference_is_ill_conditioned"] = stats.get("float_cases_where_reference_is_ill_conditioned", 0) + 1
                    continue
                if k not in kinds_ok and k != "inexact":
                    stats["nondecisive_findings"] = stats.get("nondecisive_findings", 0) + 1
                    continue
                if k == "inexact":
                    stats["inexact_discarded"] += 1
                    continue
                if k == "impl-vs-model":
                    stats["impl_vs_model_disagreements"] += 1
                elif k == "impl-vs-spec":
                    stats["impl_vs_spec_failures"] += 1
                elif k == "model-vs-spec":
                    stats["model_vs_spec_disagreements"] += 1
                elif k == "immut":
                    stats["immutability_failures"] += 1
                else:
                    stats["crashes"] += 1
                first.setdefault(k, (c, f))
        if cases and len(samples) < 6:
            c = cases[len(cases) // 2]
            try:
                impl, model, *_ = run_both(["case"] + c.lines, mode, variant, timeout=10, nospec=("+nospec" in view))
                cut = lambda ls: [l if len(l) <= 400 else l[:400] + " ...(%d characters)" % len(l) for l in ls]
                samples.append({"family": name, "mode": mode, "commands": cut(c.lines[:12]), "impl": cut(impl[1:13]), "model": cut(model[1:13])})
            except HarnessTimeout:
                samples.append({"family": name, "mode": mode, "commands": c.lines[:12], "impl": ["<timeout>"], "model": []})
        corr[name] = stats
        # decide per family
        order = ["impl-vs-spec", "immut", "impl-vs-model", "timeout", "crash", "length", "model-vs-spec"]
        for k in order:
            if k not in first:
                continue
            c, f = first[k]
            if k == "model-vs-spec":
                # my own model and spec disagree: the theorem's statement is not what I believe; not a
                # finding about the code, but the property is not shown to hold on that input
                lines = shrink(c, mode, variant, tol, k, view, f)
                path = write_replay(pid, name, mode, variant, lines, f, "model and specification disagree (theorem statement vs executable spec)")
                violations.append((path, " no-failing-input-found"))
                break
            lines = shrink(c, mode, variant, tol, k, view, f) if k != "timeout" else list(c.lines)
            f2 = [x for x in run_cases([gen.Case(lines, c.key, c.tags, c.mode)], mode, variant, tol, view)[0] if x[0] == k]
            f2 = f2[0] if f2 else f
            if k in ("impl-vs-spec", "immut"):
                path = write_replay(pid, name, mode, variant, lines, f2,
                                    "the implementation's output differs from the specification's on this input")
                violations.append((path, ""))
            else:
                # the tie is broken: is the property itself visibly false on this input?
                decisive = fam.get("decisive", True)
                if decisive:
                    path = write_replay(pid, name, mode, variant, lines, f2,
                                        "the implementation differs from the proved model in an observable the property names")
                    violations.append((path, ""))
                else:
                    path = write_replay(pid, name, mode, variant, lines, f2,
                                        "correspondence family '%s' no longer agrees with the model; theorems resting on it: %s"
                                        % (name, ", ".join(declared)))
                    violations.append((path, " no-failing-input-found"))
            break

    if not proof_ok and not violations:
        os.makedirs(REPLAYS, exist_ok=True)
        path = os.path.join(REPLAYS, "%s-proof.txt" % pid)
        open(path, "w").write("proof obligations of %s no longer check:\n%s\n\ncorrespondence found no failing input\n" %
                              (pid, "\n".join(notes)))
        violations.append((path, " no-failing-input-found"))

    # known findings (none listed for this tree suppress anything; `fixed` entries never do)
    for kf in known.get("findings", []):
        if kf.get("property") == pid:
            print("KNOWN-FINDING: property=%s %s" % (pid, kf.get("text", "")))

    write_evidence(pid, tier, seed, cfg, theorems, declared, proof_ok, corr, samples, len(violations), t0, files, notes)
    for path, suffix in violations:
        print("VIOLATION property=%s replay=%s%s" % (pid, path, suffix))
    if not violations:
        tot = sum(s["cases"] for s in corr.values())
        print("%s ok: %d/%d theorems checked, %d correspondence cases, %.1fs" %
              (pid, len(theorems), len(declared), tot, time.time() - t0))
    return 1 if violations else 0


def write_evidence(pid, tier, seed, cfg, theorems, declared, proof_ok, corr, samples, nviol, t0, files, notes):
    os.makedirs(EVID, exist_ok=True)
    discharged = sum(1 for t in declared if t in theorems and all(a in AXIOM_WHITELIST for a in theorems[t]))
    axioms = sorted({a for ax in theorems.values() for a in ax})
    ev = {
        "property_id": pid,
        "tier": tier,
        "seed": seed,
        "level": "proof",
        "coverage": {
            "obligations": max(1, len(declared)),
            "discharged": discharged if proof_ok else min(discharged, max(0, len(declared) - 1)),
            "checker_cmd": "cd /verif/lean && lake build CorgiProps.%s && lake env lean CorgiProps/%s.lean  (kernel check + #print axioms)" % (pid, pid),
            "trusted_base": ["Lean 4.33.0 kernel", "axioms used: " + (", ".join(axioms) if axioms else "none"),
                             "hand-written model tied to /repo by the correspondence families below",
                             "Rust harness, Lean driver, tools/check.py comparison"] + cfg.get("trusted", []),
            "theorems": {t: theorems.get(t) for t in declared},
            "lean_files_audited": files,
            "evaluations": sum(s["cases"] for s in corr.values()),
            "distinct_nontrivial": sum(s.get("distinct_nontrivial", 0) for s in corr.values()),
            "rule": "per family: " + "; ".join("%s: %s" % (k, v.get("rule", "")) for k, v in corr.items()),
            "traces_validated_against_impl": sum(s["cases"] for s in corr.values()),
            "correspondence": corr,
            # the model's own verdict, in the state before every executed pass, on the hypothesis `ShapeOK` of
            # C01_pathsum_of_stored_closures (decided by `shapeOKb`, proved sound in ShapeCheckSound): "ok" = the
            # theorem applies to that pass; otherwise why not (harness-defined closure, rank-1 matmul operand,
            # array without dimensions); "other" would mean the operations leave shapes `TagShape` does not describe
            "pathsum_hypothesis_checked_before_each_pass": dict(sorted(SHAPE_TALLY.items())),
            "samples": samples if samples else [{"note": "no correspondence family ran"}],
            "exhaustive": False,
        },
        "assumptions": cfg.get("assumptions", []) + notes,
        "wall_s": round(time.time() - t0, 2),
        "violations": nviol,
    }
    with open(os.path.join(EVID, pid + ".json"), "w") as f:
        json.dump(ev, f, indent=1, default=str)


if __name__ == "__main__":
    try:
        sys.exit(main())
    except subprocess.TimeoutExpired as e:
        # the model driver did not finish a batch in time: a fault of the machinery (a generated case too large for
        # the list-based model), not a statement about the code - reported as an error, never as a violation
        print("ERROR: the model driver timed out (%s); no verdict" % (e.cmd,))
        sys.exit(2)
